package main

import (
	"go/types"
	"sort"
	"strings"

	"golang.org/x/tools/go/ssa"
)

// Inferred effect contract "reads the wall clock as data" (property C07).
//
// A function has the effect if it calls (time.Time).UnixNano / Unix / UnixMilli / UnixMicro / Format / ... on a
// time value (measuring a duration with time.Since / Sub is not the effect), or calls - statically, through a
// closure it creates, or through an interface method implemented by a repository type (class hierarchy analysis) -
// a function that has it.  The summary is recomputed from the SSA of the current tree on every run and acts as an
// implicit `modifies ghost(wallclock, nil)` clause of every callee, with or without a written contract; the
// apply-handler lemmas zzC07_<command> then carry the obligation that ghost(wallclock, nil) is unchanged.
//
// Not followed: calls through plain function values (handlers stored in maps); listed as an assumption.

var clockDataMethods = map[string]bool{
	"UnixNano": true, "Unix": true, "UnixMilli": true, "UnixMicro": true, "Format": true, "String": true,
	"Nanosecond": true, "Second": true, "Minute": true, "Hour": true, "Day": true, "Date": true, "Clock": true,
	"Year": true, "YearDay": true, "Weekday": true, "Month": true, "MarshalJSON": true, "MarshalText": true, "MarshalBinary": true, "AppendFormat": true,
}

type effectInfo struct {
	clock    map[*ssa.Function]bool
	why      map[*ssa.Function]string
	implsMem map[string][]*ssa.Function
}

func (e *Engine) computeEffects() {
	ei := &effectInfo{clock: map[*ssa.Function]bool{}, why: map[*ssa.Function]string{}, implsMem: map[string][]*ssa.Function{}}
	e.eff = ei
	callees := map[*ssa.Function][]*ssa.Function{}
	var fns []*ssa.Function
	for _, f := range e.funcs {
		fns = append(fns, f)
	}
	sort.Slice(fns, func(i, j int) bool { return fns[i].String() < fns[j].String() })
	for _, f := range fns {
		if f.Blocks == nil {
			continue
		}
		for _, b := range f.Blocks {
			for _, in := range b.Instrs {
				switch v := in.(type) {
				case *ssa.MakeClosure:
					if cf, ok := v.Fn.(*ssa.Function); ok {
						callees[f] = append(callees[f], cf)
					}
				case ssa.CallInstruction:
					cc := v.Common()
					if sc := cc.StaticCallee(); sc != nil {
						if isClockDataCall(sc) {
							if !ei.clock[f] {
								ei.clock[f] = true
								ei.why[f] = "calls " + sc.String() + " at " + e.prog.Fset.Position(in.Pos()).String()
							}
							continue
						}
						if isObservabilitySink(sc) && unusedResult(in) {
							// logging / metrics / slow-log: its clock reads stamp the record, and nothing comes back
							continue
						}
						callees[f] = append(callees[f], sc)
					} else if cc.IsInvoke() {
						callees[f] = append(callees[f], e.implementations(cc)...)
					}
				}
			}
		}
	}
	// propagate to callers
	changed := true
	for changed {
		changed = false
		for _, f := range fns {
			if ei.clock[f] {
				continue
			}
			for _, c := range callees[f] {
				if ei.clock[c] {
					ei.clock[f] = true
					ei.why[f] = "calls " + c.String() + " (" + ei.why[c] + ")"
					if len(ei.why[f]) > 600 {
						ei.why[f] = ei.why[f][:600] + "..."
					}
					changed = true
					break
				}
			}
		}
	}
}

func isClockDataCall(sc *ssa.Function) bool {
	if sc.Signature.Recv() == nil {
		return false
	}
	rt := sc.Signature.Recv().Type()
	if p, ok := rt.(*types.Pointer); ok {
		rt = p.Elem()
	}
	nt, ok := rt.(*types.Named)
	if !ok || nt.Obj().Pkg() == nil || nt.Obj().Pkg().Path() != "time" || nt.Obj().Name() != "Time" {
		return false
	}
	return clockDataMethods[sc.Name()]
}

// implementations: repository methods that an interface method call may dispatch to.
func (e *Engine) implementations(cc *ssa.CallCommon) []*ssa.Function {
	it, ok := cc.Value.Type().Underlying().(*types.Interface)
	if !ok {
		return nil
	}
	key := types.TypeString(cc.Value.Type(), nil) + "." + cc.Method.Name()
	if r, ok := e.eff.implsMem[key]; ok {
		return r
	}
	var out []*ssa.Function
	for _, sp := range e.prog.AllPackages() {
		if !strings.HasPrefix(sp.Pkg.Path(), repoMod) {
			continue
		}
		for _, m := range sp.Members {
			tm, ok := m.(*ssa.Type)
			if !ok {
				continue
			}
			t := tm.Type()
			if _, isIface := t.Underlying().(*types.Interface); isIface {
				continue
			}
			for _, tt := range []types.Type{t, types.NewPointer(t)} {
				if types.Implements(tt, it) {
					if sel := e.prog.MethodSets.MethodSet(tt).Lookup(cc.Method.Pkg(), cc.Method.Name()); sel != nil {
						if f := e.prog.MethodValue(sel); f != nil {
							out = append(out, f)
						}
					}
					break
				}
			}
		}
	}
	e.eff.implsMem[key] = out
	return out
}

// clockEffectOfCall reports whether the call may read the wall clock as data, and why.
func (e *Engine) clockEffectOfCall(cc *ssa.CallCommon) (bool, string) {
	if e.eff == nil {
		return false, ""
	}
	if sc := cc.StaticCallee(); sc != nil {
		if isClockDataCall(sc) {
			return true, "calls " + sc.String()
		}
		if e.eff.clock[sc] {
			return true, sc.String() + ": " + e.eff.why[sc]
		}
		return false, ""
	}
	if cc.IsInvoke() {
		for _, f := range e.implementations(cc) {
			if e.eff.clock[f] {
				return true, f.String() + ": " + e.eff.why[f]
			}
		}
	}
	return false, ""
}

// observability sinks: packages whose functions only emit logs / metrics.  A call into them does not propagate the
// clock effect when its result is unused at the call site (so nothing they compute can reach data or replies).
var sinkPkgs = []string{repoMod + "/slow", repoMod + "/metric", repoMod + "/internal/flume_log"}

func isObservabilitySink(f *ssa.Function) bool {
	if f.Pkg == nil {
		return false
	}
	p := f.Pkg.Pkg.Path()
	for _, s := range sinkPkgs {
		if p == s {
			return true
		}
	}
	return false
}

func unusedResult(in ssa.Instruction) bool {
	v, ok := in.(ssa.Value)
	if !ok {
		return true // go / defer: no result
	}
	refs := v.Referrers()
	if refs == nil {
		return true
	}
	for _, r := range *refs {
		if _, dbg := r.(*ssa.DebugRef); dbg {
			continue
		}
		return false
	}
	return true
}
