package main

// SMT term DAG with hash-consing, light simplification and SMT-LIB printing.

import (
	"fmt"
	"math/big"
	"sort"
	"strings"
)

type Sort string

const (
	SInt  Sort = "Int"
	SBool Sort = "Bool"
)

func SArr(idx, el Sort) Sort { return Sort("(Array " + string(idx) + " " + string(el) + ")") }
func SBV(w int) Sort         { return Sort(fmt.Sprintf("(_ BitVec %d)", w)) }

func (s Sort) isBV() bool { return strings.HasPrefix(string(s), "(_ BitVec") }
func (s Sort) bvWidth() int {
	var w int
	fmt.Sscanf(string(s), "(_ BitVec %d)", &w)
	return w
}
func (s Sort) isArr() bool { return strings.HasPrefix(string(s), "(Array ") }

// arrParts splits "(Array I E)" into I and E.
func (s Sort) arrParts() (Sort, Sort) {
	str := string(s)
	str = str[len("(Array ") : len(str)-1]
	// first sort token
	depth := 0
	for i := 0; i < len(str); i++ {
		switch str[i] {
		case '(':
			depth++
		case ')':
			depth--
		case ' ':
			if depth == 0 {
				return Sort(str[:i]), Sort(str[i+1:])
			}
		}
	}
	panic("bad array sort " + string(s))
}

type Term struct {
	id    int
	op    string // "const" for literals (name holds text), "sym" for declared symbols, "bvar" bound variable, else SMT operator
	name  string
	args  []*Term
	sort  Sort
	bound bool // mentions a bound variable
	// quantifier
	qvars []*Term
}

type TermCtx struct {
	tab   map[string]*Term
	n     int
	syms  map[string]*Term // declared free symbols
	fresh map[string]int
	// uninterpreted functions: name -> signature
	ufs map[string]string
	// extra top-level definitions (define-fun-rec etc.)
	preamble []string
}

func NewTermCtx() *TermCtx {
	return &TermCtx{tab: map[string]*Term{}, syms: map[string]*Term{}, fresh: map[string]int{}, ufs: map[string]string{}}
}

func (c *TermCtx) mk(op, name string, sort Sort, args ...*Term) *Term {
	var sb strings.Builder
	sb.WriteString(op)
	sb.WriteByte('|')
	sb.WriteString(name)
	sb.WriteByte('|')
	sb.WriteString(string(sort))
	bound := op == "bvar"
	for _, a := range args {
		fmt.Fprintf(&sb, ",%d", a.id)
		if a.bound {
			bound = true
		}
	}
	k := sb.String()
	if t, ok := c.tab[k]; ok {
		return t
	}
	c.n++
	t := &Term{id: c.n, op: op, name: name, args: args, sort: sort, bound: bound}
	c.tab[k] = t
	return t
}

func (c *TermCtx) Sym(name string, sort Sort) *Term {
	name = strings.NewReplacer("|", "/", "\\", "/").Replace(name)
	if t, ok := c.syms[name]; ok {
		if t.sort != sort {
			panic(fmt.Sprintf("symbol %s redeclared with sort %s (was %s)", name, sort, t.sort))
		}
		return t
	}
	t := c.mk("sym", name, sort)
	c.syms[name] = t
	return t
}

func sanitize(s string) string {
	var sb strings.Builder
	for _, r := range s {
		if (r >= 'a' && r <= 'z') || (r >= 'A' && r <= 'Z') || (r >= '0' && r <= '9') || r == '_' || r == '.' {
			sb.WriteRune(r)
		} else {
			sb.WriteByte('_')
		}
	}
	return sb.String()
}

func (c *TermCtx) Fresh(prefix string, sort Sort) *Term {
	prefix = sanitize(prefix)
	c.fresh[prefix]++
	for {
		name := fmt.Sprintf("%s!%d", prefix, c.fresh[prefix])
		if _, exists := c.syms[name]; !exists {
			return c.Sym(name, sort)
		}
		c.fresh[prefix]++
	}
}

func (c *TermCtx) BVar(name string, sort Sort) *Term {
	c.fresh["$b"]++
	return c.mk("bvar", fmt.Sprintf("%s$%d", sanitize(name), c.fresh["$b"]), sort)
}

func (c *TermCtx) True() *Term  { return c.mk("const", "true", SBool) }
func (c *TermCtx) False() *Term { return c.mk("const", "false", SBool) }
func (c *TermCtx) Bool(b bool) *Term {
	if b {
		return c.True()
	}
	return c.False()
}

func (c *TermCtx) Int(n int64) *Term { return c.BigInt(big.NewInt(n)) }
func (c *TermCtx) BigInt(n *big.Int) *Term {
	if n.Sign() < 0 {
		return c.mk("const", "(- "+new(big.Int).Neg(n).String()+")", SInt)
	}
	return c.mk("const", n.String(), SInt)
}

func (c *TermCtx) BV(n *big.Int, w int) *Term {
	m := new(big.Int).Lsh(big.NewInt(1), uint(w))
	v := new(big.Int).Mod(n, m)
	return c.mk("const", fmt.Sprintf("(_ bv%s %d)", v.String(), w), SBV(w))
}

func (t *Term) isTrue() bool  { return t.op == "const" && t.name == "true" }
func (t *Term) isFalse() bool { return t.op == "const" && t.name == "false" }

func (t *Term) intConst() (*big.Int, bool) {
	if t.op != "const" {
		return nil, false
	}
	if t.sort == SInt {
		s := t.name
		neg := false
		if strings.HasPrefix(s, "(- ") {
			neg = true
			s = s[3 : len(s)-1]
		}
		n, ok := new(big.Int).SetString(s, 10)
		if !ok {
			return nil, false
		}
		if neg {
			n.Neg(n)
		}
		return n, true
	}
	if t.sort.isBV() {
		var s string
		var w int
		if _, err := fmt.Sscanf(t.name, "(_ bv%s %d)", &s, &w); err != nil {
			return nil, false
		}
		n, ok := new(big.Int).SetString(s, 10)
		return n, ok
	}
	return nil, false
}

func (c *TermCtx) Not(a *Term) *Term {
	if a.isTrue() {
		return c.False()
	}
	if a.isFalse() {
		return c.True()
	}
	if a.op == "not" {
		return a.args[0]
	}
	return c.mk("not", "", SBool, a)
}

func (c *TermCtx) And(as ...*Term) *Term {
	var out []*Term
	seen := map[int]bool{}
	for _, a := range as {
		if a.isTrue() {
			continue
		}
		if a.isFalse() {
			return c.False()
		}
		if a.op == "and" {
			for _, b := range a.args {
				if !seen[b.id] {
					seen[b.id] = true
					out = append(out, b)
				}
			}
			continue
		}
		if !seen[a.id] {
			seen[a.id] = true
			out = append(out, a)
		}
	}
	for _, a := range out {
		if a.op == "not" && seen[a.args[0].id] {
			return c.False()
		}
	}
	if len(out) == 0 {
		return c.True()
	}
	if len(out) == 1 {
		return out[0]
	}
	return c.mk("and", "", SBool, out...)
}

func (c *TermCtx) Or(as ...*Term) *Term {
	var out []*Term
	seen := map[int]bool{}
	for _, a := range as {
		if a.isFalse() {
			continue
		}
		if a.isTrue() {
			return c.True()
		}
		if a.op == "or" {
			for _, b := range a.args {
				if !seen[b.id] {
					seen[b.id] = true
					out = append(out, b)
				}
			}
			continue
		}
		if !seen[a.id] {
			seen[a.id] = true
			out = append(out, a)
		}
	}
	for _, a := range out {
		if a.op == "not" && seen[a.args[0].id] {
			return c.True()
		}
	}
	if len(out) == 0 {
		return c.False()
	}
	if len(out) == 1 {
		return out[0]
	}
	return c.mk("or", "", SBool, out...)
}

func (c *TermCtx) Implies(a, b *Term) *Term {
	if a.isTrue() {
		return b
	}
	if a.isFalse() || b.isTrue() {
		return c.True()
	}
	if b.isFalse() {
		return c.Not(a)
	}
	return c.mk("=>", "", SBool, a, b)
}

func (c *TermCtx) Ite(g, a, b *Term) *Term {
	if g.isTrue() {
		return a
	}
	if g.isFalse() {
		return b
	}
	if a == b {
		return a
	}
	if a.sort != b.sort {
		panic(fmt.Sprintf("ite sort mismatch %s vs %s", a.sort, b.sort))
	}
	if a.sort == SBool {
		if a.isTrue() && b.isFalse() {
			return g
		}
		if a.isFalse() && b.isTrue() {
			return c.Not(g)
		}
		if a.isTrue() {
			return c.Or(g, b)
		}
		if b.isFalse() {
			return c.And(g, a)
		}
		if a.isFalse() {
			return c.And(c.Not(g), b)
		}
		if b.isTrue() {
			return c.Or(c.Not(g), a)
		}
	}
	return c.mk("ite", "", a.sort, g, a, b)
}

func (c *TermCtx) Eq(a, b *Term) *Term {
	if a == b {
		return c.True()
	}
	if a.sort != b.sort {
		panic(fmt.Sprintf("eq sort mismatch %s vs %s (%s, %s)", a.sort, b.sort, c.Show(a), c.Show(b)))
	}
	if x, ok := a.intConst(); ok {
		if y, ok := b.intConst(); ok {
			return c.Bool(x.Cmp(y) == 0)
		}
	}
	if a.sort == SBool {
		if a.isTrue() {
			return b
		}
		if b.isTrue() {
			return a
		}
		if a.isFalse() {
			return c.Not(b)
		}
		if b.isFalse() {
			return c.Not(a)
		}
	}
	if a.id > b.id {
		a, b = b, a
	}
	return c.mk("=", "", SBool, a, b)
}

func (c *TermCtx) Select(a, i *Term) *Term {
	_, es := a.sort.arrParts()
	// select over store with syntactically identical / distinct constant index
	for a.op == "store" {
		if a.args[1] == i {
			return a.args[2]
		}
		x, ok1 := a.args[1].intConst()
		y, ok2 := i.intConst()
		if ok1 && ok2 && x.Cmp(y) != 0 {
			a = a.args[0]
			continue
		}
		break
	}
	return c.mk("select", "", es, a, i)
}

func (c *TermCtx) Store(a, i, v *Term) *Term {
	is, es := a.sort.arrParts()
	if i.sort != is || v.sort != es {
		panic(fmt.Sprintf("store sort mismatch: array %s idx %s val %s", a.sort, i.sort, v.sort))
	}
	if a.op == "store" && a.args[1] == i {
		a = a.args[0]
	}
	return c.mk("store", "", a.sort, a, i, v)
}

// App builds an application of an SMT operator or uninterpreted function.
func (c *TermCtx) App(op string, sort Sort, args ...*Term) *Term {
	return c.mk(op, "", sort, args...)
}

// UF declares (once) and applies an uninterpreted function.
func (c *TermCtx) UF(name string, sort Sort, args ...*Term) *Term {
	name = sanitize(name)
	var sb strings.Builder
	sb.WriteString("(")
	for i, a := range args {
		if i > 0 {
			sb.WriteByte(' ')
		}
		sb.WriteString(string(a.sort))
	}
	sb.WriteString(") ")
	sb.WriteString(string(sort))
	sig := sb.String()
	if old, ok := c.ufs[name]; ok && old != sig {
		panic("UF " + name + " redeclared: " + old + " vs " + sig)
	}
	c.ufs[name] = sig
	if len(args) == 0 {
		panic("UF with no args: use Sym")
	}
	return c.mk("uf:"+name, "", sort, args...)
}

func (c *TermCtx) Forall(vars []*Term, body *Term) *Term {
	if body.isTrue() {
		return body
	}
	if !body.bound {
		return body
	}
	t := c.mk("forall", qkey(vars), SBool, body)
	t.qvars = vars
	t.bound = hasOtherBound(body, vars)
	return t
}

func (c *TermCtx) Exists(vars []*Term, body *Term) *Term {
	if body.isFalse() {
		return body
	}
	if !body.bound {
		return body
	}
	t := c.mk("exists", qkey(vars), SBool, body)
	t.qvars = vars
	t.bound = hasOtherBound(body, vars)
	return t
}

func qkey(vars []*Term) string {
	var s []string
	for _, v := range vars {
		s = append(s, v.name)
	}
	return strings.Join(s, " ")
}

func hasOtherBound(body *Term, vars []*Term) bool {
	bound := map[*Term]bool{}
	for _, v := range vars {
		bound[v] = true
	}
	seen := map[*Term]bool{}
	var rec func(t *Term) bool
	rec = func(t *Term) bool {
		if !t.bound || seen[t] {
			return false
		}
		seen[t] = true
		if t.op == "bvar" {
			return !bound[t]
		}
		if t.op == "forall" || t.op == "exists" {
			for _, v := range t.qvars {
				bound[v] = true
			}
		}
		for _, a := range t.args {
			if rec(a) {
				return true
			}
		}
		return false
	}
	return rec(body)
}

// ---------- integer arithmetic helpers (mathematical Int) ----------

func (c *TermCtx) Add(a, b *Term) *Term {
	if x, ok := a.intConst(); ok && a.sort == SInt {
		if y, ok := b.intConst(); ok {
			return c.BigInt(new(big.Int).Add(x, y))
		}
		if x.Sign() == 0 {
			return b
		}
	}
	if y, ok := b.intConst(); ok && b.sort == SInt && y.Sign() == 0 {
		return a
	}
	// (a + k1) + k2
	if y, ok := b.intConst(); ok && a.op == "+" && len(a.args) == 2 {
		if x, ok := a.args[1].intConst(); ok {
			return c.Add(a.args[0], c.BigInt(new(big.Int).Add(x, y)))
		}
	}
	return c.mk("+", "", SInt, a, b)
}

func (c *TermCtx) Sub(a, b *Term) *Term {
	if a == b {
		return c.Int(0)
	}
	if y, ok := b.intConst(); ok {
		return c.Add(a, c.BigInt(new(big.Int).Neg(y)))
	}
	return c.mk("-", "", SInt, a, b)
}

func (c *TermCtx) Mul(a, b *Term) *Term {
	x, ok1 := a.intConst()
	y, ok2 := b.intConst()
	if ok1 && ok2 {
		return c.BigInt(new(big.Int).Mul(x, y))
	}
	if ok1 && x.Cmp(big.NewInt(1)) == 0 {
		return b
	}
	if ok2 && y.Cmp(big.NewInt(1)) == 0 {
		return a
	}
	if ok1 && x.Sign() == 0 || ok2 && y.Sign() == 0 {
		return c.Int(0)
	}
	return c.mk("*", "", SInt, a, b)
}

func (c *TermCtx) Neg(a *Term) *Term {
	if x, ok := a.intConst(); ok {
		return c.BigInt(new(big.Int).Neg(x))
	}
	return c.mk("-", "", SInt, a)
}

// floor division / modulo of SMT-LIB (divisor constant positive in all our uses)
func (c *TermCtx) Div(a, b *Term) *Term {
	x, ok1 := a.intConst()
	y, ok2 := b.intConst()
	if ok1 && ok2 && y.Sign() > 0 {
		q := new(big.Int)
		m := new(big.Int)
		q.DivMod(x, y, m)
		return c.BigInt(q)
	}
	if ok2 && y.Cmp(big.NewInt(1)) == 0 {
		return a
	}
	return c.mk("div", "", SInt, a, b)
}

func (c *TermCtx) Mod(a, b *Term) *Term {
	x, ok1 := a.intConst()
	y, ok2 := b.intConst()
	if ok1 && ok2 && y.Sign() > 0 {
		q := new(big.Int)
		m := new(big.Int)
		q.DivMod(x, y, m)
		return c.BigInt(m)
	}
	return c.mk("mod", "", SInt, a, b)
}

func (c *TermCtx) cmp(op string, a, b *Term) *Term {
	x, ok1 := a.intConst()
	y, ok2 := b.intConst()
	if ok1 && ok2 && a.sort == SInt {
		r := x.Cmp(y)
		switch op {
		case "<":
			return c.Bool(r < 0)
		case "<=":
			return c.Bool(r <= 0)
		case ">":
			return c.Bool(r > 0)
		case ">=":
			return c.Bool(r >= 0)
		}
	}
	if a == b {
		return c.Bool(op == "<=" || op == ">=")
	}
	return c.mk(op, "", SBool, a, b)
}
func (c *TermCtx) Lt(a, b *Term) *Term { return c.cmp("<", a, b) }
func (c *TermCtx) Le(a, b *Term) *Term { return c.cmp("<=", a, b) }
func (c *TermCtx) Gt(a, b *Term) *Term { return c.cmp(">", a, b) }
func (c *TermCtx) Ge(a, b *Term) *Term { return c.cmp(">=", a, b) }

// ---------- printing ----------

func opName(t *Term) string {
	if strings.HasPrefix(t.op, "uf:") {
		return t.op[3:]
	}
	return t.op
}

type printer struct {
	c      *TermCtx
	sb     *strings.Builder
	named  map[*Term]string
	syms   map[*Term]bool
	ufs    map[string]bool
	defs   []string
	ndefs  int
	inline bool
}

func (p *printer) ref(t *Term) string {
	switch t.op {
	case "const":
		return t.name
	case "sym":
		p.syms[t] = true
		return "|" + t.name + "|"
	case "bvar":
		return "|" + t.name + "|"
	}
	if n, ok := p.named[t]; ok {
		return n
	}
	if strings.HasPrefix(t.op, "uf:") {
		p.ufs[t.op[3:]] = true
	}
	var sb strings.Builder
	if t.op == "forall" || t.op == "exists" {
		sb.WriteString("(" + t.op + " (")
		for _, v := range t.qvars {
			sb.WriteString("(|" + v.name + "| " + string(v.sort) + ")")
		}
		sb.WriteString(") ")
		sb.WriteString(p.ref(t.args[0]))
		sb.WriteString(")")
	} else {
		sb.WriteString("(" + opName(t))
		for _, a := range t.args {
			sb.WriteByte(' ')
			sb.WriteString(p.ref(a))
		}
		sb.WriteString(")")
	}
	s := sb.String()
	if t.bound || p.inline {
		return s
	}
	p.ndefs++
	n := fmt.Sprintf("t%d", t.id)
	p.named[t] = n
	p.defs = append(p.defs, fmt.Sprintf("(define-fun %s () %s %s)", n, t.sort, s))
	return n
}

// Show renders a term inline for humans (may be large).
func (c *TermCtx) Show(t *Term) string {
	p := &printer{c: c, named: map[*Term]string{}, syms: map[*Term]bool{}, ufs: map[string]bool{}, inline: true}
	s := p.ref(t)
	if len(s) > 600 {
		s = s[:600] + "…"
	}
	return s
}

// Query renders a full SMT-LIB script asserting all of `asserts`.
func (c *TermCtx) Query(logic string, asserts []*Term, getModel bool, extraSyms []*Term) string {
	p := &printer{c: c, named: map[*Term]string{}, syms: map[*Term]bool{}, ufs: map[string]bool{}}
	var lines []string
	for _, a := range asserts {
		lines = append(lines, "(assert "+p.ref(a)+")")
	}
	for _, s := range extraSyms {
		p.ref(s)
	}
	var sb strings.Builder
	if getModel {
		sb.WriteString("(set-option :produce-models true)\n")
	}
	sb.WriteString("(set-logic " + logic + ")\n")
	var syms []*Term
	for s := range p.syms {
		syms = append(syms, s)
	}
	sort.Slice(syms, func(i, j int) bool { return syms[i].name < syms[j].name })
	for _, s := range syms {
		fmt.Fprintf(&sb, "(declare-fun |%s| () %s)\n", s.name, s.sort)
	}
	var ufs []string
	for u := range p.ufs {
		ufs = append(ufs, u)
	}
	sort.Strings(ufs)
	for _, u := range ufs {
		fmt.Fprintf(&sb, "(declare-fun %s %s)\n", u, c.ufs[u])
	}
	for _, l := range c.preamble {
		sb.WriteString(l)
		sb.WriteByte('\n')
	}
	for _, d := range p.defs {
		sb.WriteString(d)
		sb.WriteByte('\n')
	}
	for _, l := range lines {
		sb.WriteString(l)
		sb.WriteByte('\n')
	}
	sb.WriteString("(check-sat)\n")
	if getModel {
		var names []string
		for _, s := range syms {
			if !s.sort.isArr() {
				names = append(names, "|"+s.name+"|")
			}
		}
		if len(names) > 0 {
			sb.WriteString("(get-value (" + strings.Join(names, " ") + "))\n")
		}
	}
	return sb.String()
}

// ---------- partial evaluation under known-true atoms ----------

type simpEnv struct {
	c     *TermCtx
	known map[*Term]bool // term -> truth value
	memo  map[*Term]*Term
}

// knownFrom collects literals from a conjunction assumed true.
func (c *TermCtx) newSimpEnv(assumed *Term) *simpEnv {
	e := &simpEnv{c: c, known: map[*Term]bool{}, memo: map[*Term]*Term{}}
	var add func(t *Term, val bool)
	add = func(t *Term, val bool) {
		if t.bound {
			return
		}
		switch {
		case t.op == "and" && val:
			for _, a := range t.args {
				add(a, true)
			}
		case t.op == "or" && !val:
			for _, a := range t.args {
				add(a, false)
			}
		case t.op == "not":
			add(t.args[0], !val)
		default:
			e.known[t] = val
		}
	}
	add(assumed, true)
	return e
}

func (e *simpEnv) simp(t *Term) *Term {
	if v, ok := e.known[t]; ok && t.sort == SBool {
		return e.c.Bool(v)
	}
	if len(t.args) == 0 {
		return t
	}
	if r, ok := e.memo[t]; ok {
		return r
	}
	c := e.c
	var r *Term
	switch t.op {
	case "and":
		var as []*Term
		for _, a := range t.args {
			as = append(as, e.simp(a))
		}
		r = c.And(as...)
	case "or":
		var as []*Term
		for _, a := range t.args {
			as = append(as, e.simp(a))
		}
		r = c.Or(as...)
	case "not":
		r = c.Not(e.simp(t.args[0]))
	case "=>":
		r = c.Implies(e.simp(t.args[0]), e.simp(t.args[1]))
	case "ite":
		g := e.simp(t.args[0])
		if g.isTrue() {
			r = e.simp(t.args[1])
		} else if g.isFalse() {
			r = e.simp(t.args[2])
		} else {
			r = c.Ite(g, e.simp(t.args[1]), e.simp(t.args[2]))
		}
	case "=":
		r = c.Eq(e.simp(t.args[0]), e.simp(t.args[1]))
	case "select":
		r = c.Select(e.simp(t.args[0]), e.simp(t.args[1]))
	case "store":
		r = c.Store(e.simp(t.args[0]), e.simp(t.args[1]), e.simp(t.args[2]))
	case "forall", "exists":
		b := e.simp(t.args[0])
		if t.op == "forall" {
			r = c.Forall(t.qvars, b)
		} else {
			r = c.Exists(t.qvars, b)
		}
	default:
		changed := false
		as := make([]*Term, len(t.args))
		for i, a := range t.args {
			as[i] = e.simp(a)
			if as[i] != a {
				changed = true
			}
		}
		if !changed {
			r = t
		} else {
			r = c.mk(t.op, t.name, t.sort, as...)
		}
	}
	if v, ok := e.known[r]; ok && r.sort == SBool {
		r = c.Bool(v)
	}
	e.memo[t] = r
	return r
}

// DNF expands a boolean term (and/or nesting over arbitrary atoms) into at most max conjunctions;
// returns nil if the expansion would exceed max.
func (c *TermCtx) DNF(t *Term, max int) []*Term {
	var rec func(t *Term) [][]*Term
	overflow := false
	rec = func(t *Term) [][]*Term {
		if overflow {
			return nil
		}
		switch t.op {
		case "or":
			var out [][]*Term
			for _, a := range t.args {
				out = append(out, rec(a)...)
				if len(out) > max {
					overflow = true
					return nil
				}
			}
			return out
		case "and":
			out := [][]*Term{{}}
			for _, a := range t.args {
				sub := rec(a)
				if overflow {
					return nil
				}
				var next [][]*Term
				for _, o := range out {
					for _, s := range sub {
						n := append(append([]*Term{}, o...), s...)
						next = append(next, n)
						if len(next) > max {
							overflow = true
							return nil
						}
					}
				}
				out = next
			}
			return out
		}
		return [][]*Term{{t}}
	}
	cs := rec(t)
	if overflow || cs == nil {
		return nil
	}
	var res []*Term
	for _, conj := range cs {
		a := c.And(conj...)
		if !a.isFalse() {
			res = append(res, a)
		}
	}
	return res
}

// symsOf returns the free symbols / uninterpreted function names of a term (memoised).
func (c *TermCtx) symsOf(t *Term, memo map[*Term]map[string]bool) map[string]bool {
	if m, ok := memo[t]; ok {
		return m
	}
	m := map[string]bool{}
	switch {
	case t.op == "sym":
		m[t.name] = true
	case strings.HasPrefix(t.op, "uf:"):
		m[t.op] = true
	}
	for _, a := range t.args {
		for k := range c.symsOf(a, memo) {
			m[k] = true
		}
	}
	memo[t] = m
	return m
}

// SplitCases refines a path condition into at most max cases by repeatedly splitting a case on one of
// its disjunctive conjuncts (largest first).  The disjunction of the cases is equivalent to t.
func (c *TermCtx) SplitCases(t *Term, max int) []*Term {
	flatten := func(t *Term) []*Term {
		if t.op == "and" {
			return t.args
		}
		return []*Term{t}
	}
	cases := [][]*Term{flatten(t)}
	for len(cases) < max {
		// pick the case and conjunct to split: the first `or` conjunct (prefer shallow, earlier path decisions)
		ci, ji := -1, -1
		for i, cs := range cases {
			for j, a := range cs {
				if a.op == "or" {
					ci, ji = i, j
					break
				}
			}
			if ci >= 0 {
				break
			}
		}
		if ci < 0 {
			break
		}
		cs := cases[ci]
		or := cs[ji]
		if len(cases)-1+len(or.args) > max {
			// cannot split this one within budget: mark by moving on (replace with a non-or wrapper is not possible); stop
			break
		}
		rest := append(append([]*Term{}, cs[:ji]...), cs[ji+1:]...)
		var repl [][]*Term
		for _, d := range or.args {
			n := append(append([]*Term{}, rest...), flatten(d)...)
			a := c.And(n...)
			if a.isFalse() {
				continue
			}
			repl = append(repl, flatten(a))
		}
		cases = append(append(append([][]*Term{}, cases[:ci]...), repl...), cases[ci+1:]...)
	}
	var out []*Term
	for _, cs := range cases {
		a := c.And(cs...)
		if !a.isFalse() {
			out = append(out, a)
		}
	}
	return out
}
