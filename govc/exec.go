package main

// Symbolic execution of go/ssa with loop cutting at invariants, state merging
// at joins and modular calls; produces proof obligations.

import (
	"fmt"
	"go/ast"
	"go/constant"
	"go/token"
	"go/types"
	"math/big"
	"os"
	"path/filepath"
	"sort"
	"strings"
	"sync"

	"golang.org/x/tools/go/ssa"
)

type Obl struct {
	Name    string
	Kind    string
	Desc    string
	Goal    *Term
	Guard   *Term
	NAssume int
	NFacts  int
	Pos     token.Pos
	Cover   bool // satisfiability check (must be sat)
	// results
	Result     string
	Solver     string
	Ms         int64
	Model      string
	Query      string
	RawQuery   string
	Abstracted bool
}

type FnExec struct {
	branchCovers bool
	E            *Engine
	tc           *TermCtx
	top          *Contract
	topFn        *ssa.Function
	bv           bool
	noOvf        bool
	facts        []*Term
	assumes      []*Term
	obls         []*Obl
	kindCnt      map[string]int
	epochs       int
	ranged       map[int]bool
	rangedSl     map[int]bool
	entryRefDone map[string]bool
	heapSorts    map[string]Sort
	writeLog     map[string]bool
	cellLog      map[ssa.Value]bool
	strConsts    map[string]*Term
	depth        int
	trustedUsed  map[string]bool
	notes        []string
	typeTags     map[string]int
	abstracted   bool
	entry        *State
	globErrs     map[*ssa.Global]*Term
	crossMode    map[string]bool
	lemmaFiles   map[string]bool
	refKeys      map[string]bool
	symMemo      map[*Term]map[string]bool
	idxNames     map[int]*Term
	tcMu         sync.Mutex
	curStatic    []types.Type
	boxAxiom     map[string]bool
	topFrame     *Frame
	ghostTypes   map[string]types.Type
}

func (x *FnExec) addFact(t *Term) {
	if t.isTrue() {
		return
	}
	x.facts = append(x.facts, t)
}

func (x *FnExec) assume(g, t *Term) {
	f := x.tc.Implies(g, t)
	if f.isTrue() {
		return
	}
	x.assumes = append(x.assumes, f)
}

func (x *FnExec) oblige(kind, desc string, g, goal *Term, pos token.Pos) {
	x.kindCnt[kind]++
	name := fmt.Sprintf("%s#%s[%d]", shortKey(x.top.Key), kind, x.kindCnt[kind])
	o := &Obl{Name: name, Kind: kind, Desc: desc, Goal: goal, Guard: g, NAssume: len(x.assumes), NFacts: len(x.facts), Pos: pos, Abstracted: x.abstracted}
	x.obls = append(x.obls, o)
}

func (x *FnExec) obligeNamed(kind, label, desc string, g, goal *Term, pos token.Pos) {
	name := fmt.Sprintf("%s#%s[%s]", shortKey(x.top.Key), kind, sanitize(label))
	o := &Obl{Name: name, Kind: kind, Desc: desc, Goal: goal, Guard: g, NAssume: len(x.assumes), NFacts: len(x.facts), Pos: pos, Abstracted: x.abstracted}
	x.obls = append(x.obls, o)
}

func shortKey(k string) string {
	return strings.ReplaceAll(k, repoMod+"/", "")
}

type retSite struct {
	g   *Term
	val Value
	st  *State
}

type loopInfo struct {
	header  *ssa.BasicBlock
	blocks  map[*ssa.BasicBlock]bool
	ordinal int
	spec    *LoopSpec
	// per-iteration snapshot for decreases
	dec0      *Term
	phis      map[*ssa.Phi]Value
	st        *State
	frameKeys []string
	mods      []modLoc
}

type Frame struct {
	x        *FnExec
	fn       *ssa.Function
	contract *Contract
	vals     map[ssa.Value]Value
	entryG   map[*ssa.BasicBlock]*Term
	exitG    map[*ssa.BasicBlock]*Term
	exitSt   map[*ssa.BasicBlock]*State
	done     map[*ssa.BasicBlock]bool
	rets     []retSite
	entry    *State // state at function entry (for old())
	loops    map[*ssa.BasicBlock]*loopInfo
	rpo      []*ssa.BasicBlock
	disc     map[*ssa.BasicBlock]bool
	debug    map[string][]ssa.Value
	env      map[string]TV // params by contract name
	binds    []Value
	top      bool
	deferred []*ssa.Defer
}

func newFnExec(e *Engine, c *Contract, fn *ssa.Function) *FnExec {
	x := &FnExec{E: e, tc: NewTermCtx(), top: c, topFn: fn, bv: c.Mode == "bv", noOvf: c.NoOverflow,
		kindCnt: map[string]int{}, ranged: map[int]bool{}, rangedSl: map[int]bool{}, heapSorts: map[string]Sort{},
		strConsts: map[string]*Term{}, trustedUsed: map[string]bool{}, typeTags: map[string]int{}, globErrs: map[*ssa.Global]*Term{}, crossMode: map[string]bool{}, lemmaFiles: map[string]bool{}, refKeys: map[string]bool{}, idxNames: map[int]*Term{}, boxAxiom: map[string]bool{}, ghostTypes: map[string]types.Type{}}
	return x
}

// ---------- CFG helpers ----------

func blockReaches(a, b *ssa.BasicBlock) bool {
	seen := map[*ssa.BasicBlock]bool{}
	var dfs func(x *ssa.BasicBlock) bool
	dfs = func(x *ssa.BasicBlock) bool {
		if x == b {
			return true
		}
		if seen[x] {
			return false
		}
		seen[x] = true
		for _, s := range x.Succs {
			if dfs(s) {
				return true
			}
		}
		return false
	}
	return dfs(a)
}

func (fr *Frame) analyse() {
	fn := fr.fn
	// reverse postorder ignoring nothing (back edges handled by dominance test)
	seen := map[*ssa.BasicBlock]bool{}
	var post []*ssa.BasicBlock
	var dfs func(b *ssa.BasicBlock)
	dfs = func(b *ssa.BasicBlock) {
		seen[b] = true
		for _, s := range b.Succs {
			if !seen[s] {
				dfs(s)
			}
		}
		post = append(post, b)
	}
	dfs(fn.Blocks[0])
	for i := len(post) - 1; i >= 0; i-- {
		fr.rpo = append(fr.rpo, post[i])
	}
	// loops
	fr.loops = map[*ssa.BasicBlock]*loopInfo{}
	for _, b := range fr.rpo {
		for _, s := range b.Succs {
			if s.Dominates(b) {
				li := fr.loops[s]
				if li == nil {
					li = &loopInfo{header: s, blocks: map[*ssa.BasicBlock]bool{s: true}}
					fr.loops[s] = li
				}
				// natural loop: blocks reaching b without passing s
				var stack []*ssa.BasicBlock
				if !li.blocks[b] {
					li.blocks[b] = true
					stack = append(stack, b)
				}
				for len(stack) > 0 {
					n := stack[len(stack)-1]
					stack = stack[:len(stack)-1]
					for _, p := range n.Preds {
						if !li.blocks[p] && seen[p] {
							li.blocks[p] = true
							stack = append(stack, p)
						}
					}
				}
			}
		}
	}
	// ordinals by source position
	var hs []*loopInfo
	for _, li := range fr.loops {
		hs = append(hs, li)
	}
	minPos := func(li *loopInfo) token.Pos {
		var m token.Pos
		for b := range li.blocks {
			for _, in := range b.Instrs {
				if _, isDbg := in.(*ssa.DebugRef); isDbg {
					continue
				}
				if p := in.Pos(); p.IsValid() && (m == 0 || p < m) {
					m = p
				}
			}
		}
		return m
	}
	sort.Slice(hs, func(i, j int) bool {
		pi, pj := minPos(hs[i]), minPos(hs[j])
		if pi != pj {
			return pi < pj
		}
		return hs[i].header.Index < hs[j].header.Index
	})
	for i, li := range hs {
		li.ordinal = i + 1
		if fr.contract != nil {
			li.spec = fr.contract.Loops[li.ordinal]
		}
		if os.Getenv("VERIF_LOOPS") != "" {
			fmt.Fprintf(os.Stderr, "loop-ordinal: %s loop %d = block %d (%s) line %d\n", fr.fn.Name(), li.ordinal, li.header.Index, li.header.Comment, fr.x.E.prog.Fset.Position(minPos(li)).Line)
		}
	}
}

func isBackEdge(p, s *ssa.BasicBlock) bool { return s.Dominates(p) }

func (fr *Frame) edgeCond(p, s *ssa.BasicBlock) *Term {
	x := fr.x
	g := fr.exitG[p]
	if len(p.Instrs) == 0 {
		return g
	}
	if iff, ok := p.Instrs[len(p.Instrs)-1].(*ssa.If); ok {
		c := fr.val(iff.Cond).(*Term)
		if p.Succs[0] == s && p.Succs[1] == s {
			return g
		}
		if p.Succs[0] == s {
			return x.tc.And(g, c)
		}
		return x.tc.And(g, x.tc.Not(c))
	}
	return g
}

// ---------- function verification entry ----------

func (x *FnExec) verifyFunction() {
	c := x.top
	fn := x.topFn
	fr := x.newFrame(fn, c)
	fr.top = true
	x.topFrame = fr
	st := x.rootState()
	x.entry = st
	fr.entry = st
	// parameters
	sig := fn.Signature
	names := c.ParamNames
	nparams := len(fn.Params)
	if len(names) != nparams {
		unsupp("contract header of %s names %d parameters, function has %d", c.Key, len(names), nparams)
	}
	_ = sig
	for i, p := range fn.Params {
		v := x.freshVal("in."+p.Name(), p.Type())
		x.inputFacts(st, v, p.Type())
		fr.vals[p] = v
		fr.env[names[i]] = TV{v, p.Type()}
		if p.Name() != names[i] {
			fr.env[p.Name()] = TV{v, p.Type()}
		}
	}
	for _, fv := range fn.FreeVars {
		// a closure verified on its own: captured variables are cells that exist; specs name their entry values
		v := x.freshVal("free."+fv.Name(), fv.Type())
		x.inputFacts(st, v, fv.Type())
		fr.vals[fv] = v
		if pt, ok := fv.Type().(*types.Pointer); ok {
			if vt, ok := v.(*Term); ok {
				x.addFact(x.tc.Not(x.tc.Eq(vt, x.refConst(0))))
				val := x.load(st, x.ptrPlace(v, fv.Type()))
				x.inputFacts(st, val, pt.Elem())
				if _, dup := fr.env[fv.Name()]; !dup {
					fr.env[fv.Name()] = TV{val, pt.Elem()}
				}
			}
		}
	}
	g := x.tc.True()
	if c.Opts["iremaxioms"] != "" {
		// checked arithmetic lemma (contracts/lemmas/irem_distinct.smt2) about the uninterpreted remainder
		tc := x.tc
		a, b, n := tc.BVar("a", SInt), tc.BVar("b", SInt), tc.BVar("n", SInt)
		x.addFact(tc.Forall([]*Term{a, b, n}, tc.Implies(tc.And(tc.Ge(a, tc.Int(0)), tc.Gt(b, a), tc.Lt(tc.Sub(b, a), n), tc.Gt(n, tc.Int(0))),
			tc.Not(tc.Eq(tc.UF("irem", SInt, a, n), tc.UF("irem", SInt, b, n))))))
		x.addFact(tc.Forall([]*Term{a, n}, tc.Implies(tc.And(tc.Ge(a, tc.Int(0)), tc.Gt(n, tc.Int(0))),
			tc.And(tc.Ge(tc.UF("irem", SInt, a, n), tc.Int(0)), tc.Lt(tc.UF("irem", SInt, a, n), n)))))
		x.lemmaFiles["irem_distinct.smt2"] = true
	}
	// requires
	ev := x.specEnv(fr, st, st, c)
	for _, r := range c.Requires {
		x.assume(g, ev.evalBool(r.E))
	}
	body := st.child()
	rv, rst, rg := x.execBody(fr, body, g)
	if rst == nil {
		// no return reached (function always panics / loops)
		x.notes = append(x.notes, "no return path")
		return
	}
	// postconditions
	pev := x.specEnv(fr, rst, st, c)
	pev.bindResults(c, fn.Signature.Results(), rv)
	for i, en := range c.Ensures {
		goal := pev.evalBool(en.E)
		x.kindCnt["POST"] = i
		x.oblige("POST", en.Text, rg, goal, fn.Pos())
	}
	x.kindCnt["POST"] = len(c.Ensures)
	x.obls = append(x.obls, &Obl{Name: shortKey(c.Key) + "#COVER[ret]", Kind: "COVER", Desc: "a return is reachable under the preconditions and all assumed callee postconditions (no contradiction)", Guard: rg, Goal: x.tc.True(), NAssume: len(x.assumes), NFacts: len(x.facts), Cover: true})
	if !c.ModAll {
		x.frameObligations(fr, st, rst, rg, c, rv)
	}
}

// inputFacts: references received as input exist already.
func (x *FnExec) inputFacts(st *State, v Value, t types.Type) {
	switch vv := v.(type) {
	case *Term:
		x.refFact(st, vv, t)
	case *SliceV:
		x.refFact(st, vv.arr, nil)
	case *StructV:
		u := t.Underlying().(*types.Struct)
		for i, f := range vv.fields {
			x.inputFacts(st, f, u.Field(i).Type())
		}
	}
}

// wellFormedSlices: every slice header inside v satisfies 0 <= off, 0 <= len <= cap (a stored Go value).
func (x *FnExec) wellFormedSlices(v Value) {
	switch vv := v.(type) {
	case *SliceV:
		x.sliceFacts(vv)
	case *StructV:
		for _, f := range vv.fields {
			x.wellFormedSlices(f)
		}
	}
}

func (x *FnExec) newFrame(fn *ssa.Function, c *Contract) *Frame {
	if fn.Blocks == nil {
		unsupp("function %s has no body", fn)
	}
	fr := &Frame{x: x, fn: fn, contract: c, vals: map[ssa.Value]Value{}, entryG: map[*ssa.BasicBlock]*Term{},
		exitG: map[*ssa.BasicBlock]*Term{}, exitSt: map[*ssa.BasicBlock]*State{}, done: map[*ssa.BasicBlock]bool{},
		disc: map[*ssa.BasicBlock]bool{}, debug: map[string][]ssa.Value{}, env: map[string]TV{}}
	fr.analyse()
	return fr
}

// execBody runs all blocks and merges the return sites.
func (x *FnExec) execBody(fr *Frame, st *State, g *Term) (Value, *State, *Term) {
	fr.entryG[fr.fn.Blocks[0]] = g
	first := true
	for _, b := range fr.rpo {
		if first {
			x.execBlock(fr, b, st, g)
			first = false
			continue
		}
		x.execBlock(fr, b, nil, nil)
	}
	if len(fr.rets) == 0 {
		return nil, nil, x.tc.False()
	}
	var ps []stParent
	var gs []*Term
	val := fr.rets[len(fr.rets)-1].val
	for i := len(fr.rets) - 2; i >= 0; i-- {
		val = x.iteVal(fr.rets[i].g, fr.rets[i].val, val)
	}
	for _, r := range fr.rets {
		ps = append(ps, stParent{r.g, r.st})
		gs = append(gs, r.g)
	}
	return val, x.mergeStates(ps), x.tc.Or(gs...)
}

func (fr *Frame) val(v ssa.Value) Value {
	x := fr.x
	switch vv := v.(type) {
	case *ssa.Const:
		if vv.Value == nil {
			return x.zeroVal(vv.Type())
		}
		return x.constTerm(vv.Value, vv.Type())
	case *ssa.Global:
		return &Place{kind: pkGlobal, glob: vv, obj: deref(vv.Type())}
	case *ssa.Function:
		return &FuncV{fn: vv}
	case *ssa.Builtin:
		unsupp("builtin %s used as value", vv.Name())
	}
	if r, ok := fr.vals[v]; ok {
		return r
	}
	unsupp("value %s (%T) used before definition in %s", v.Name(), v, fr.fn)
	return nil
}

func (x *FnExec) execBlock(fr *Frame, b *ssa.BasicBlock, st0 *State, g0 *Term) {
	var st *State
	var g *Term
	li := fr.loops[b]
	if st0 != nil {
		st, g = st0, g0
		if li != nil {
			// entry block is a loop header: treat the function entry as the single entry edge
			st, g = x.enterLoop(fr, li, []stParent{{g0, st0}}, nil)
		}
	} else {
		var ps []stParent
		var preds []*ssa.BasicBlock
		for _, p := range b.Preds {
			if isBackEdge(p, b) && li != nil {
				continue
			}
			if !fr.done[p] {
				continue
			}
			eg := fr.edgeCond(p, b)
			if eg.isFalse() {
				continue
			}
			ps = append(ps, stParent{eg, fr.exitSt[p]})
			preds = append(preds, p)
		}
		if fr.disc[b] {
			// discovery pass for this loop header: arbitrary state
			st = x.rootState()
			g = x.tc.Fresh("discg", SBool)
			for _, in := range b.Instrs {
				if phi, ok := in.(*ssa.Phi); ok {
					fr.vals[phi] = x.freshVal("disc."+phi.Name(), phi.Type())
				}
			}
			for lb := range li.blocks {
				for _, in := range lb.Instrs {
					if nx, ok := in.(*ssa.Next); ok {
						if r, ok := nx.Iter.(*ssa.Range); ok {
							mt := r.X.Type().Underlying().(*types.Map)
							st.cells[r] = TupleV{x.tc.Fresh("disc.visited", SArr(x.scalarSort(mt.Key()), SBool)), x.tc.Fresh("disc.nvisited", x.refSort())}
						}
					}
				}
			}
		} else {
			if len(ps) == 0 {
				return // unreachable
			}
			if li != nil {
				st, g = x.enterLoop(fr, li, ps, preds)
			} else {
				var gs []*Term
				for _, p := range ps {
					gs = append(gs, p.g)
				}
				g = x.tc.Or(gs...)
				st = x.mergeStates(ps)
				// phis
				for _, in := range b.Instrs {
					phi, ok := in.(*ssa.Phi)
					if !ok {
						break
					}
					var v Value
					for i := len(preds) - 1; i >= 0; i-- {
						ev := fr.phiEdge(phi, preds[i], b)
						if v == nil {
							v = ev
						} else {
							v = x.iteVal(ps[i].g, ev, v)
						}
					}
					fr.vals[phi] = v
				}
			}
		}
	}
	fr.entryG[b] = g
	for _, in := range b.Instrs {
		if _, ok := in.(*ssa.Phi); ok {
			continue
		}
		g = x.execInstr(fr, in, st, g)
		if g.isFalse() {
			break
		}
	}
	fr.exitG[b] = g
	fr.exitSt[b] = st
	fr.done[b] = true
	// back edges
	for _, s := range b.Succs {
		if isBackEdge(b, s) {
			if l2 := fr.loops[s]; l2 != nil && !fr.disc[s] {
				x.closeLoop(fr, l2, b)
			}
		}
	}
}

func (fr *Frame) phiEdge(phi *ssa.Phi, pred, b *ssa.BasicBlock) Value {
	for i, p := range b.Preds {
		if p == pred {
			return fr.val(phi.Edges[i])
		}
	}
	panic("phi edge")
}

// enterLoop: assert invariant on entry, havoc, assume invariant.
func (x *FnExec) enterLoop(fr *Frame, li *loopInfo, ps []stParent, preds []*ssa.BasicBlock) (*State, *Term) {
	b := li.header
	if li.spec == nil {
		// `opt autoloops` (thin safety contracts): a loop without a written invariant is cut with the trivial
		// invariant `true` (plus the implicit range-index bounds); everything the loop writes is havocked
		if (fr.contract != nil && fr.contract.Opts["autoloops"] != "") || (x.top != nil && x.top.Opts["autoloops"] != "") {
			li.spec = &LoopSpec{Ordinal: li.ordinal}
		} else {
			unsupp("loop %d of %s has no invariant (out-of-subset)", li.ordinal, fr.fn)
		}
	}
	var gs []*Term
	for _, p := range ps {
		gs = append(gs, p.g)
	}
	g := x.tc.Or(gs...)
	pre := x.mergeStates(ps)
	// entry phi values
	entryPhis := map[*ssa.Phi]Value{}
	for _, in := range b.Instrs {
		phi, ok := in.(*ssa.Phi)
		if !ok {
			break
		}
		var v Value
		if preds == nil {
			unsupp("loop header as entry block with phis")
		}
		for i := len(preds) - 1; i >= 0; i-- {
			ev := fr.phiEdge(phi, preds[i], b)
			if v == nil {
				v = ev
			} else {
				v = x.iteVal(ps[i].g, ev, v)
			}
		}
		entryPhis[phi] = v
	}
	// discovery of the modified set
	wl, cl := x.discover(fr, li)
	// INV on entry
	ev := x.specEnv(fr, pre, fr.entry, fr.contract)
	ev.phis = entryPhis
	ev.loop = li
	for i, inv := range li.spec.Invariants {
		x.oblige("INV-ENTRY", fmt.Sprintf("loop %d invariant %d on entry: %s", li.ordinal, i+1, inv.Text), g, ev.evalBool(inv.E), 0)
	}
	if rb := x.rangeIndexBounds(fr, li, entryPhis); rb != nil {
		x.obligeNamed("INV-ENTRY", fmt.Sprintf("range.%d", li.ordinal), fmt.Sprintf("loop %d implicit range-index bounds on entry", li.ordinal), g, rb, 0)
	}
	// implicit frame invariants: heap components the loop writes keep the entry value of every
	// location that existed at function entry and is outside the modifies set
	var frameKeys []string
	var mods []modLoc
	if x.top != nil && !x.top.ModAll && x.entry != nil {
		mods = x.modLocs(x.topFrame, x.entry, x.top, nil, false)
		for k := range wl {
			if k != "*" {
				frameKeys = append(frameKeys, k)
			}
		}
		sort.Strings(frameKeys)
		for _, k := range frameKeys {
			if fc := x.frameCond(mods, k, x.entry, pre); fc != nil && !fc.isTrue() {
				x.obligeNamed("INV-ENTRY", fmt.Sprintf("frame.%d.%s", li.ordinal, k), fmt.Sprintf("loop %d implicit frame invariant on entry for %s", li.ordinal, k), g, fc, 0)
			}
		}
	}
	li.frameKeys, li.mods = frameKeys, mods
	// havoc
	st := pre.child()
	keys := make([]string, 0, len(wl))
	for k := range wl {
		keys = append(keys, k)
	}
	sort.Strings(keys)
	var starAlloc *Term
	if wl["*"] {
		// the loop calls code with unbounded effects (`modifies *` or no contract): the loop head state is an
		// arbitrary heap, ghost state included (conservative); local cells survive (see havocAll)
		saved := x.writeLog
		x.writeLog = nil
		x.havocAll(st)
		x.writeLog = saved
		if st.base != nil {
			st.base.ghostBase = nil
		}
		x.addFact(x.intLe(pre.alloc, st.alloc))
		starAlloc = st.alloc
	}
	for _, k := range keys {
		if k == "*" {
			continue
		}
		st.heap[k] = x.tc.Fresh("Hloop|"+k, x.heapSorts[k])
	}
	na := x.tc.Fresh("ALLOCloop", x.refSort())
	x.addFact(x.intLe(pre.alloc, na))
	if starAlloc != nil {
		x.addFact(x.intLe(starAlloc, na))
	}
	x.allocBound(na)
	st.alloc = na
	var cellAllocs []ssa.Value
	for a := range cl {
		cellAllocs = append(cellAllocs, a)
	}
	sort.Slice(cellAllocs, func(i, j int) bool { return cellAllocs[i].Pos() < cellAllocs[j].Pos() })
	for _, a := range cellAllocs {
		switch av := a.(type) {
		case *ssa.Alloc:
			cv := x.freshVal("cell."+av.Comment, deref(av.Type()))
			x.inputFacts(st, cv, deref(av.Type()))
			st.cells[a] = cv
		case *ssa.Range:
			// visited set of a map iteration
			mt := av.X.Type().Underlying().(*types.Map)
			st.cells[a] = TupleV{x.tc.Fresh("visited", SArr(x.scalarSort(mt.Key()), SBool)), x.tc.Fresh("nvisited", x.refSort())}
		}
	}
	// every reference stored in a havocked heap component denotes an allocated object
	for _, k := range keys {
		if !x.refKeys[k] {
			continue
		}
		h := st.heap[k]
		r := x.tc.BVar("r", x.refSort())
		switch {
		case strings.HasPrefix(k, "obj:"):
			x.assume(g, x.tc.Forall([]*Term{r}, x.tc.And(x.intLe(x.refConst(0), x.tc.Select(h, r)), x.intLt(x.tc.Select(h, r), na))))
		case strings.HasPrefix(k, "elem:"):
			i := x.tc.BVar("i", x.refSort())
			x.assume(g, x.tc.Forall([]*Term{r, i}, x.tc.And(x.intLe(x.refConst(0), x.tc.Select(x.tc.Select(h, r), i)), x.intLt(x.tc.Select(x.tc.Select(h, r), i), na))))
		}
	}
	phis := map[*ssa.Phi]Value{}
	for _, in := range b.Instrs {
		phi, ok := in.(*ssa.Phi)
		if !ok {
			break
		}
		v := x.freshVal("loop."+phi.Comment+"."+phi.Name(), phi.Type())
		x.inputFacts(st, v, phi.Type())
		fr.vals[phi] = v
		phis[phi] = v
	}
	ev2 := x.specEnv(fr, st, fr.entry, fr.contract)
	ev2.phis = phis
	ev2.loop = li
	for _, inv := range li.spec.Invariants {
		x.assume(g, ev2.evalBool(inv.E))
	}
	for _, k := range frameKeys {
		if fc := x.frameCond(mods, k, x.entry, st); fc != nil {
			x.assume(g, fc)
		}
	}
	if rb := x.rangeIndexBounds(fr, li, phis); rb != nil {
		x.assume(g, rb)
	}
	li.phis = phis
	li.st = st
	if li.spec.Decreases != nil {
		li.dec0 = ev2.eval(li.spec.Decreases.E).v.(*Term)
	}
	return st, g
}

// rangeIndexBounds returns, for a slice-range loop header, the invariant -1 <= rangeindex <= len-1
// evaluated for the given phi values (nil if the header is not of that shape).
func (x *FnExec) rangeIndexBounds(fr *Frame, li *loopInfo, phis map[*ssa.Phi]Value) *Term {
	var out []*Term
	for _, in := range li.header.Instrs {
		phi, ok := in.(*ssa.Phi)
		if !ok {
			break
		}
		if phi.Comment != "rangeindex" {
			// counting loop variable: every edge is a constant or phi + positive constant, so the variable never
			// drops below the least of those constants (implicit, proved on entry and on every back edge)
			if lb := countingLowerBound(phi); lb != nil {
				if p, ok := phis[phi].(*Term); ok {
					out = append(out, x.compare(token.LEQ, x.bigConst(lb, phi.Type()), p, phi.Type()))
				}
			}
			continue
		}
		var inc *ssa.BinOp
		for _, r := range *phi.Referrers() {
			if b, ok := r.(*ssa.BinOp); ok && b.Op == token.ADD && b.X == phi && b.Block() == li.header {
				inc = b
			}
		}
		if inc == nil {
			continue
		}
		for _, r := range *inc.Referrers() {
			if c, ok := r.(*ssa.BinOp); ok && c.Op == token.LSS && c.X == inc && c.Block() == li.header {
				lv, ok := fr.vals[c.Y]
				if !ok {
					if _, isc := c.Y.(*ssa.Const); !isc {
						continue
					}
					lv = fr.val(c.Y)
				}
				l := lv.(*Term)
				p := phis[phi].(*Term)
				one := x.bigConst(big.NewInt(1), phi.Type())
				m1 := x.bigConst(big.NewInt(-1), phi.Type())
				lm1, _ := x.arith(token.SUB, l, one, phi.Type(), true)
				out = append(out, x.compare(token.LEQ, m1, p, phi.Type()), x.compare(token.LEQ, p, lm1, phi.Type()))
			}
		}
	}
	if len(out) == 0 {
		return nil
	}
	return x.tc.And(out...)
}

// staticDebugName: does some DebugRef of fn bind the source identifier `name` to the SSA value val?
func staticDebugName(fn *ssa.Function, name string, val ssa.Value) bool {
	for _, b := range fn.Blocks {
		for _, in := range b.Instrs {
			if d, ok := in.(*ssa.DebugRef); ok && !d.IsAddr && d.X == val {
				if id, ok := d.Expr.(*ast.Ident); ok && id.Name == name {
					return true
				}
				// a field map, written as in the source: wb.cachedForMerge
				if se, ok := d.Expr.(*ast.SelectorExpr); ok {
					if xid, ok := se.X.(*ast.Ident); ok && xid.Name+"."+se.Sel.Name == name {
						return true
					}
				}
			}
		}
	}
	return false
}

// countingLowerBound: phi of signed integer type whose edges are all integer constants or phi + positive constant
// (at least one of each); returns the least constant.
func countingLowerBound(phi *ssa.Phi) *big.Int {
	bt, ok := phi.Type().Underlying().(*types.Basic)
	if !ok || bt.Info()&types.IsInteger == 0 || bt.Info()&types.IsUnsigned != 0 {
		return nil
	}
	var lb *big.Int
	incs := 0
	for _, e := range phi.Edges {
		switch v := e.(type) {
		case *ssa.Const:
			if v.Value == nil || v.Value.Kind() != constant.Int {
				return nil
			}
			c, ok := new(big.Int).SetString(v.Value.ExactString(), 10)
			if !ok {
				return nil
			}
			if lb == nil || c.Cmp(lb) < 0 {
				lb = c
			}
		case *ssa.BinOp:
			k, isc := v.Y.(*ssa.Const)
			if v.Op != token.ADD || v.X != ssa.Value(phi) || !isc || k.Value == nil || k.Value.Kind() != constant.Int || constant.Sign(k.Value) <= 0 {
				return nil
			}
			incs++
		default:
			return nil
		}
	}
	if incs == 0 {
		return nil
	}
	return lb
}

func (x *FnExec) closeLoop(fr *Frame, li *loopInfo, from *ssa.BasicBlock) {
	g := fr.edgeCond(from, li.header)
	if g.isFalse() {
		return
	}
	st := fr.exitSt[from]
	phis := map[*ssa.Phi]Value{}
	for _, in := range li.header.Instrs {
		phi, ok := in.(*ssa.Phi)
		if !ok {
			break
		}
		phis[phi] = fr.phiEdge(phi, from, li.header)
	}
	ev := x.specEnv(fr, st, fr.entry, fr.contract)
	ev.phis = phis
	ev.loop = li
	for i, inv := range li.spec.Invariants {
		x.oblige("INV-PRES", fmt.Sprintf("loop %d invariant %d preserved: %s", li.ordinal, i+1, inv.Text), g, ev.evalBool(inv.E), 0)
	}
	if rb := x.rangeIndexBounds(fr, li, phis); rb != nil {
		x.obligeNamed("INV-PRES", fmt.Sprintf("range.%d.%d", li.ordinal, from.Index), fmt.Sprintf("loop %d implicit range-index bounds preserved", li.ordinal), g, rb, 0)
	}
	for _, k := range li.frameKeys {
		if fc := x.frameCond(li.mods, k, x.entry, st); fc != nil && !fc.isTrue() {
			x.obligeNamed("INV-PRES", fmt.Sprintf("frame.%d.%s.%d", li.ordinal, k, from.Index), fmt.Sprintf("loop %d implicit frame invariant preserved for %s", li.ordinal, k), g, fc, 0)
		}
	}
	if li.spec.Decreases != nil {
		d1 := ev.eval(li.spec.Decreases.E).v.(*Term)
		x.oblige("DECR", fmt.Sprintf("loop %d measure decreases and is bounded: %s", li.ordinal, li.spec.Decreases.Text), g,
			x.tc.And(x.intLe(x.refConst(0), li.dec0), x.intLt(d1, li.dec0)), 0)
	}
}

// discover runs the loop body once from an arbitrary state to learn which heap keys / cells it writes.
func (x *FnExec) discover(fr *Frame, li *loopInfo) (map[string]bool, map[ssa.Value]bool) {
	saveW, saveC := x.writeLog, x.cellLog
	nob, nas, nfa := len(x.obls), len(x.assumes), len(x.facts)
	saveCnt := map[string]int{}
	for k, v := range x.kindCnt {
		saveCnt[k] = v
	}
	saveDone := map[*ssa.BasicBlock]bool{}
	for k, v := range fr.done {
		saveDone[k] = v
	}
	nrets := len(fr.rets)
	// facts produced while discovering are about throw-away symbols: drop them afterwards (and the
	// de-duplication tables that would otherwise suppress their re-creation in the real pass)
	saveRanged, saveRangedSl := copyIntSet(x.ranged), copyIntSet(x.rangedSl)
	saveStr := map[string]*Term{}
	for k, v := range x.strConsts {
		saveStr[k] = v
	}
	saveErr := map[*ssa.Global]*Term{}
	for k, v := range x.globErrs {
		saveErr[k] = v
	}
	saveIdx := map[int]*Term{}
	for k, v := range x.idxNames {
		saveIdx[k] = v
	}
	saveBox := map[string]bool{}
	for k, v := range x.boxAxiom {
		saveBox[k] = v
	}
	x.writeLog, x.cellLog = map[string]bool{}, map[ssa.Value]bool{}
	fr.disc[li.header] = true
	for _, b := range fr.rpo {
		if li.blocks[b] {
			x.execBlock(fr, b, nil, nil)
		}
	}
	delete(fr.disc, li.header)
	wl, cl := x.writeLog, x.cellLog
	x.writeLog, x.cellLog = saveW, saveC
	if saveW != nil {
		for k := range wl {
			saveW[k] = true
		}
		for k := range cl {
			saveC[k] = true
		}
	}
	x.obls, x.assumes = x.obls[:nob], x.assumes[:nas]
	x.facts = x.facts[:nfa]
	x.ranged, x.rangedSl, x.strConsts, x.globErrs, x.boxAxiom = saveRanged, saveRangedSl, saveStr, saveErr, saveBox
	x.idxNames = saveIdx
	x.kindCnt = saveCnt
	fr.done = saveDone
	fr.rets = fr.rets[:nrets]
	return wl, cl
}

func copyIntSet(m map[int]bool) map[int]bool {
	r := make(map[int]bool, len(m))
	for k, v := range m {
		r[k] = v
	}
	return r
}

// ---------- instructions ----------

func (x *FnExec) execInstr(fr *Frame, in ssa.Instruction, st *State, g *Term) *Term {
	tc := x.tc
	switch v := in.(type) {
	case *ssa.DebugRef:
		if id, ok := v.Expr.(*ast.Ident); ok && !v.IsAddr {
			fr.debug[id.Name] = append(fr.debug[id.Name], v.X)
		}
	case *ssa.Alloc:
		et := deref(v.Type())
		if arr, ok := et.Underlying().(*types.Array); ok {
			// arrays always live in the element heap so that they can be sliced
			r := x.newRef(st)
			p := &Place{kind: pkElem, arr: r, idx: x.refConst(0), elem: arr.Elem()}
			var ls []leaf
			x.leaves(arr.Elem(), "", &ls)
			for _, l := range ls {
				key := "elem:" + typeKey(arr.Elem()) + l.path
				hs := x.heapSort(p, l.sort)
				st.setHeap(key, tc.Store(st.getHeap(key, hs), r, x.constArray(SArr(x.refSort(), l.sort), x.zeroLeaf(l))))
			}
			fr.vals[v] = r
			break
		}
		if v.Heap {
			r := x.newRef(st)
			p := &Place{kind: pkHeap, ref: r, obj: et}
			x.store(st, p, x.zeroVal(et))
			fr.vals[v] = r
		} else {
			st.setCell(v, x.zeroVal(et))
			fr.vals[v] = &Place{kind: pkLocal, alloc: v, obj: et}
		}
	case *ssa.BinOp:
		fr.vals[v] = x.binop(fr, v, st, g)
	case *ssa.UnOp:
		fr.vals[v] = x.unop(fr, v, st, g)
	case *ssa.Phi:
	case *ssa.ChangeType:
		fr.vals[v] = fr.val(v.X)
	case *ssa.ChangeInterface:
		fr.vals[v] = fr.val(v.X)
	case *ssa.Convert:
		fr.vals[v] = x.convert(fr, v, st, g)
	case *ssa.MakeInterface:
		fr.vals[v] = x.makeInterface(fr, st, fr.val(v.X), v.X.Type())
	case *ssa.TypeAssert:
		fr.vals[v] = x.typeAssert(fr, v, st, g)
	case *ssa.Extract:
		fr.vals[v] = fr.val(v.Tuple).(TupleV)[v.Index]
	case *ssa.Field:
		fr.vals[v] = fr.val(v.X).(*StructV).fields[v.Field]
	case *ssa.FieldAddr:
		pv := fr.val(v.X)
		if t, ok := pv.(*Term); ok {
			x.oblige("NIL", fmt.Sprintf("nil dereference of %s", v.X.Name()), g, tc.Not(tc.Eq(t, x.refConst(0))), v.Pos())
		}
		fr.vals[v] = x.ptrPlace(pv, v.X.Type()).extend(v.Field)
	case *ssa.IndexAddr:
		fr.vals[v] = x.indexAddr(fr, v, st, g)
	case *ssa.Index:
		xv := fr.val(v.X)
		idx := fr.val(v.Index).(*Term)
		idx = x.toRefSort(idx, v.Index.Type())
		switch a := xv.(type) {
		case *ArrV:
			x.oblige("IDX", fmt.Sprintf("array index %s", v.Index.Name()), g, tc.And(x.intLe(x.refConst(0), idx), x.intLt(idx, x.refConst(a.n))), v.Pos())
			r := tc.Select(a.t, idx)
			x.rangeFact(r, v.Type())
			fr.vals[v] = r
		default:
			unsupp("Index on %T", xv)
		}
	case *ssa.Lookup:
		fr.vals[v] = x.lookup(fr, v, st, g)
	case *ssa.Slice:
		fr.vals[v] = x.sliceInstr(fr, v, st, g)
	case *ssa.MakeSlice:
		ln := x.toRefSort(fr.val(v.Len).(*Term), v.Len.Type())
		cp := x.toRefSort(fr.val(v.Cap).(*Term), v.Cap.Type())
		x.oblige("MAKE", "make: 0 <= len <= cap", g, tc.And(x.intLe(x.refConst(0), ln), x.intLe(ln, cp)), v.Pos())
		fr.vals[v] = x.allocSlice(st, v.Type().Underlying().(*types.Slice).Elem(), ln, cp)
	case *ssa.Store:
		p := x.ptrPlace(fr.val(v.Addr), v.Addr.Type())
		if p.kind == pkHeap {
			if _, isAlloc := v.Addr.(*ssa.Alloc); !isAlloc {
				x.oblige("NIL", fmt.Sprintf("store through nil pointer %s", v.Addr.Name()), g, tc.Not(tc.Eq(p.ref, x.refConst(0))), v.Pos())
			}
		}
		if p.kind == pkGlobal {
			unsupp("store to global %s", p.glob)
		}
		val := fr.val(v.Val)
		// conditional store: only on this path (states are per path; merging handles it)
		x.store(st, p, val)
	case *ssa.Call:
		res, g2 := x.call(fr, &v.Call, v, st, g)
		fr.vals[v] = res
		return g2
	case *ssa.MakeClosure:
		fv := &FuncV{fn: v.Fn.(*ssa.Function)}
		for _, b := range v.Bindings {
			fv.binds = append(fv.binds, fr.val(b))
		}
		fr.vals[v] = fv
	case *ssa.MakeMap:
		fr.vals[v] = x.makeMap(fr, v, st)
		if fr.top && x.top != nil {
			// a fresh map named in a mapassert starts with ghost(mapupd, m) == 0
			for _, ma := range x.top.MapAsserts {
				// (a field map named "x.f" is created by `x.f = make(...)`: the new map has had no update either)
				if staticDebugName(fr.fn, ma.Callee, v) || strings.Contains(ma.Callee, ".") {
					gt := x.ghostTypes["mapupd"]
					if gt == nil {
						gt = types.NewNamed(types.NewTypeName(0, nil, "ghost_mapupd", nil), types.Typ[types.Int], nil)
						x.ghostTypes["mapupd"] = gt
					}
					x.store(st, &Place{kind: pkHeap, ref: fr.vals[v].(*Term), obj: gt}, x.refConst(0))
				}
			}
		}
	case *ssa.MapUpdate:
		x.mapUpdate(fr, v, st, g)
	case *ssa.Range:
		fr.vals[v] = x.rangeInit(fr, v, st, g)
	case *ssa.Next:
		fr.vals[v] = x.rangeNext(fr, v, st, g)
	case *ssa.Defer:
		if x.isNoEffectCall(&v.Call) {
			break
		}
		dup := false
		for _, d := range fr.deferred {
			if d == v {
				dup = true
			}
		}
		if !dup {
			fr.deferred = append(fr.deferred, v)
		}
	case *ssa.RunDefers:
		// deferred calls run LIFO. A defer whose block dominates this exit has run on every path reaching it;
		// one that cannot reach this exit has not run; anything else is outside the subset.
		for i := len(fr.deferred) - 1; i >= 0; i-- {
			d := fr.deferred[i]
			if d.Block().Dominates(in.Block()) {
				_, g2 := x.call(fr, &d.Call, nil, st, g)
				g = g2
				continue
			}
			if blockReaches(d.Block(), in.Block()) {
				unsupp("conditionally executed defer of %s", d.Call.Value.Name())
			}
		}
		return g
	case *ssa.If:
		// diagnostic (VERIF_BRANCH_COVERS=1): is each side of this branch of the function under verification
		// reachable under the preconditions and all assumed callee contracts?  An unreachable side usually means
		// an over-strong assumed contract (path-level vacuity), sometimes dead defensive code.
		if x.branchCovers && fr.top {
			c := fr.val(v.Cond).(*Term)
			pos := x.E.prog.Fset.Position(v.Cond.Pos())
			for k, gg := range []*Term{tc.And(g, c), tc.And(g, tc.Not(c))} {
				side := "true"
				if k == 1 {
					side = "false"
				}
				x.obls = append(x.obls, &Obl{Name: fmt.Sprintf("%s#BRANCH[%s:%d:%s]", shortKey(x.top.Key), filepath.Base(pos.Filename), pos.Line, side), Kind: "BRANCH", Desc: "branch side reachable", Guard: gg, Goal: tc.True(), NAssume: len(x.assumes), NFacts: len(x.facts), Cover: true})
			}
		}
	case *ssa.Jump:
	case *ssa.Return:
		var rv Value
		if len(v.Results) == 1 {
			rv = fr.val(v.Results[0])
		} else if len(v.Results) > 1 {
			var tv TupleV
			for _, r := range v.Results {
				tv = append(tv, fr.val(r))
			}
			rv = tv
		}
		fr.rets = append(fr.rets, retSite{g, rv, st})
	case *ssa.Panic:
		c := x.top
		if c.Panics == "violation" {
			x.oblige("NOPANIC", "explicit panic unreachable", g, tc.False(), v.Pos())
		}
		return tc.False()
	case *ssa.Go, *ssa.Select, *ssa.Send, *ssa.MakeChan:
		if x.top.Opts["abstract"] != "" {
			x.abstracted = true
			if val, ok := in.(ssa.Value); ok {
				fr.vals[val] = x.freshVal("abstr", val.Type())
			}
			break
		}
		unsupp("concurrency instruction %T (out of subset)", in)
	default:
		unsupp("instruction %T not supported", in)
	}
	return g
}

func (x *FnExec) asBoxable(v Value) (*Term, bool) {
	switch p := v.(type) {
	case *Term:
		return p, true
	case *Place:
		if p.kind == pkHeap && len(p.path) == 0 && p.aidx == nil {
			return p.ref, true
		}
	}
	return nil, false
}

func (x *FnExec) zeroLeaf(l leaf) *Term { return x.zeroScalar(l.sort) }

func (x *FnExec) toRefSort(t *Term, typ types.Type) *Term {
	if !x.bv {
		return t
	}
	w := t.sort.bvWidth()
	if w == 64 {
		return t
	}
	b := basicOf(typ)
	return x.bvResize(t, w, 64, b != nil && !isUnsigned(b))
}

func (x *FnExec) allocSlice(st *State, elem types.Type, ln, cp *Term) *SliceV {
	r := x.newRef(st)
	p := &Place{kind: pkElem, arr: r, idx: x.refConst(0), elem: elem}
	var ls []leaf
	x.leaves(elem, "", &ls)
	for _, l := range ls {
		key := "elem:" + typeKey(elem) + l.path
		hs := x.heapSort(p, l.sort)
		st.setHeap(key, x.tc.Store(st.getHeap(key, hs), r, x.constArray(SArr(x.refSort(), l.sort), x.zeroLeaf(l))))
	}
	return &SliceV{r, x.refConst(0), ln, cp}
}

func (x *FnExec) binop(fr *Frame, v *ssa.BinOp, st *State, g *Term) Value {
	tc := x.tc
	a, b := fr.val(v.X), fr.val(v.Y)
	t := v.X.Type()
	if bt := basicOf(t); bt != nil && bt.Info()&types.IsFloat != 0 {
		// floating point is opaque: comparisons may go either way (NaN, -0), arithmetic yields any value
		switch v.Op {
		case token.EQL, token.NEQ, token.LSS, token.LEQ, token.GTR, token.GEQ:
			return tc.Fresh("fcmp", SBool)
		}
		return tc.Fresh("fop", "Real")
	}
	switch v.Op {
	case token.EQL, token.NEQ:
		var eq *Term
		if bt := basicOf(t); bt != nil && bt.Info()&types.IsString != 0 {
			eq = x.strEq(a.(*Term), b.(*Term))
		} else if _, ok := t.Underlying().(*types.Slice); ok {
			// comparison with nil
			sa, sb := a.(*SliceV), b.(*SliceV)
			other := sa
			if _, isc := v.X.(*ssa.Const); isc {
				other = sb
			}
			eq = tc.Eq(other.arr, x.refConst(0))
		} else {
			eq = x.eqVal(x.asComparable(a), x.asComparable(b))
		}
		if v.Op == token.NEQ {
			return tc.Not(eq)
		}
		return eq
	case token.LSS, token.LEQ, token.GTR, token.GEQ:
		if bt := basicOf(t); bt != nil && bt.Info()&types.IsString != 0 {
			unsupp("string ordering")
		}
		return x.compare(v.Op, a.(*Term), b.(*Term), t)
	case token.LAND, token.LOR:
		unsupp("logical binop in ssa")
	}
	if bt := basicOf(t); bt != nil && bt.Info()&types.IsString != 0 && v.Op == token.ADD {
		r := tc.UF("strcat", x.refSort(), a.(*Term), b.(*Term))
		x.addFact(tc.Eq(x.strLen(r), x.intAdd(x.strLen(a.(*Term)), x.strLen(b.(*Term)))))
		return r
	}
	if bt := basicOf(t); bt != nil && bt.Info()&types.IsFloat != 0 {
		// floating point is opaque: any result (float operations never panic)
		return tc.Fresh("fop", "Real")
	}
	at, bt2 := a.(*Term), b.(*Term)
	if v.Op == token.QUO || v.Op == token.REM {
		x.oblige("DIV", "division by zero", g, tc.Not(tc.Eq(bt2, x.zeroScalar(bt2.sort))), v.Pos())
	}
	if (v.Op == token.SHL || v.Op == token.SHR) && !x.bv {
		// shift count: Go panics on negative signed shift counts; constants are fine
		if _, ok := bt2.intConst(); !ok {
			unsupp("variable shift in int mode")
		}
	}
	r, ovf := x.arith(v.Op, at, bt2, v.Type(), false)
	if ovf != nil {
		x.oblige("OVF", fmt.Sprintf("64-bit %s does not overflow", v.Op), g, ovf, v.Pos())
	}
	return r
}

func (x *FnExec) asComparable(v Value) Value {
	switch p := v.(type) {
	case *IfaceV:
		return p.id
	case *Place:
		if p.kind == pkHeap && len(p.path) == 0 && p.aidx == nil {
			return p.ref
		}
		// interior pointer: an injective function of (base, path); never nil
		var base *Term
		name := "addr"
		switch p.kind {
		case pkHeap:
			base = p.ref
			pk, _ := pathKey(p.obj, p.path)
			name += ":" + typeKey(p.obj) + pk
		case pkElem:
			if p.aidx != nil {
				unsupp("comparison of pointer into array inside aggregate")
			}
			pk, _ := pathKey(p.elem, p.path)
			name += ":elem:" + typeKey(p.elem) + pk
			r := x.tc.UF(name, x.refSort(), p.arr, p.idx)
			if !r.bound {
				x.addFact(x.tc.Not(x.tc.Eq(r, x.refConst(0))))
			}
			return r
		default:
			unsupp("comparison of pointer to local or global")
		}
		r := x.tc.UF(name, x.refSort(), base)
		if !r.bound {
			x.addFact(x.tc.Not(x.tc.Eq(r, x.refConst(0))))
		}
		return r
	}
	return v
}

func (x *FnExec) unop(fr *Frame, v *ssa.UnOp, st *State, g *Term) Value {
	tc := x.tc
	switch v.Op {
	case token.MUL:
		pv := fr.val(v.X)
		if gl, ok := v.X.(*ssa.Global); ok {
			return x.loadGlobal(st, gl)
		}
		if t, ok := pv.(*Term); ok {
			x.oblige("NIL", fmt.Sprintf("nil dereference of %s", v.X.Name()), g, tc.Not(tc.Eq(t, x.refConst(0))), v.Pos())
		}
		return x.load(st, x.ptrPlace(pv, v.X.Type()))
	case token.NOT:
		return tc.Not(fr.val(v.X).(*Term))
	case token.SUB:
		a := fr.val(v.X).(*Term)
		if x.bv {
			return tc.App("bvneg", a.sort, a)
		}
		r, ovf := x.arith(token.SUB, tc.Int(0), a, v.Type(), false)
		if ovf != nil {
			x.oblige("OVF", "negation does not overflow", g, ovf, v.Pos())
		}
		return r
	case token.XOR:
		a := fr.val(v.X).(*Term)
		if x.bv {
			return tc.App("bvnot", a.sort, a)
		}
		bt := basicOf(v.Type())
		if isUnsigned(bt) {
			_, hi := intRange(bt)
			return tc.Sub(tc.BigInt(hi), a)
		}
		return tc.Sub(tc.Int(-1), a)
	}
	unsupp("unary %s", v.Op)
	return nil
}

func (x *FnExec) loadGlobal(st *State, gl *ssa.Global) Value {
	t := deref(gl.Type())
	if c, ok := x.E.constGlobal[gl]; ok {
		return x.constTerm(c.Value, t)
	}
	if x.E.errGlobal[gl] || (isErrorType(t) && gl.Pkg != nil && !strings.HasPrefix(gl.Pkg.Pkg.Path(), repoMod)) {
		if e, ok := x.globErrs[gl]; ok {
			return e
		}
		e := x.tc.Sym("errvar:"+gl.String(), x.refSort())
		x.addFact(x.tc.Not(x.tc.Eq(e, x.refConst(0))))
		for _, o := range x.globErrs {
			x.addFact(x.tc.Not(x.tc.Eq(e, o)))
		}
		x.globErrs[gl] = e
		return e
	}
	if x.E.zeroGlobal[gl] {
		return x.zeroVal(t)
	}
	if str, ok := x.E.bytesGlobal[gl]; ok {
		return x.constBytesGlobal(st, gl, str)
	}
	// arbitrary but fixed during the activation unless havocked
	p := &Place{kind: pkGlobal, glob: gl, obj: t}
	return x.load(st, p)
}

func (x *FnExec) convert(fr *Frame, v *ssa.Convert, st *State, g *Term) Value {
	from, to := v.X.Type(), v.Type()
	a := fr.val(v.X)
	fb, tb := basicOf(from), basicOf(to)
	switch {
	case fb != nil && tb != nil && fb.Info()&types.IsInteger != 0 && tb.Info()&types.IsInteger != 0:
		return x.convertInt(a.(*Term), from, to)
	case fb != nil && tb != nil && fb.Info()&types.IsString != 0 && tb.Info()&types.IsString != 0:
		return a
	case tb != nil && tb.Info()&types.IsString != 0:
		if sl, ok := a.(*SliceV); ok {
			return x.bytesToString(st, sl)
		}
		unsupp("conversion %s -> string", from)
	case fb != nil && fb.Info()&types.IsString != 0:
		if _, ok := to.Underlying().(*types.Slice); ok {
			return x.stringToBytes(st, a.(*Term))
		}
	case fb != nil && tb != nil && (fb.Info()&types.IsFloat != 0 || tb.Info()&types.IsFloat != 0):
		// opaque: any value of the target type
		return x.freshVal("fconv", to)
	case fb != nil && fb.Kind() == types.UnsafePointer || tb != nil && tb.Kind() == types.UnsafePointer:
		unsupp("unsafe.Pointer conversion")
	}
	if _, ok := to.Underlying().(*types.Pointer); ok {
		return a
	}
	if _, ok := to.Underlying().(*types.Slice); ok {
		return a
	}
	unsupp("conversion %s -> %s", from, to)
	return nil
}

func (x *FnExec) bytesToString(st *State, sl *SliceV) *Term {
	tc := x.tc
	s := tc.Fresh("str", x.refSort())
	x.addFact(tc.Eq(x.strLen(s), sl.ln))
	i := tc.BVar("i", x.refSort())
	p := &Place{kind: pkElem, arr: sl.arr, idx: x.intAdd(sl.off, i), elem: types.Typ[types.Uint8]}
	el := x.load(st, p).(*Term)
	x.addFact(tc.Forall([]*Term{i}, tc.Implies(tc.And(x.intLe(x.refConst(0), i), x.intLt(i, sl.ln)), tc.Eq(x.strAt(s, i), el))))
	return s
}

func (x *FnExec) stringToBytes(st *State, s *Term) *SliceV {
	tc := x.tc
	ln := x.strLen(s)
	sl := x.allocSlice(st, types.Typ[types.Uint8], ln, ln)
	key := "elem:uint8"
	esort := SInt
	if x.bv {
		esort = SBV(8)
	}
	hs := SArr(x.refSort(), SArr(x.refSort(), esort))
	content := tc.Fresh("strbytes", SArr(x.refSort(), esort))
	i := tc.BVar("i", x.refSort())
	x.addFact(tc.Forall([]*Term{i}, tc.Implies(tc.And(x.intLe(x.refConst(0), i), x.intLt(i, ln)), tc.Eq(tc.Select(content, i), x.strAt(s, i)))))
	st.setHeap(key, tc.Store(st.getHeap(key, hs), sl.arr, content))
	return sl
}

// nameIndex gives a compound index term a name: solvers normalise ground sums such as off+(i+1), after
// which quantifier patterns of the shape off+?k no longer match them.
func (x *FnExec) nameIndex(idx *Term, g *Term) *Term {
	if idx.op == "sym" || idx.op == "const" || idx.bound {
		return idx
	}
	if n, ok := x.idxNames[idx.id]; ok {
		return n
	}
	n := x.tc.Fresh("ix", idx.sort)
	x.addFact(x.tc.Eq(n, idx))
	x.idxNames[idx.id] = n
	return n
}

func (x *FnExec) indexAddr(fr *Frame, v *ssa.IndexAddr, st *State, g *Term) Value {
	tc := x.tc
	idx := x.nameIndex(x.toRefSort(fr.val(v.Index).(*Term), v.Index.Type()), g)
	xv := fr.val(v.X)
	switch xt := v.X.Type().Underlying().(type) {
	case *types.Slice:
		sl := xv.(*SliceV)
		x.oblige("IDX", fmt.Sprintf("index %s in range of %s", v.Index.Name(), v.X.Name()), g,
			tc.And(x.intLe(x.refConst(0), idx), x.intLt(idx, sl.ln)), v.Pos())
		return &Place{kind: pkElem, arr: sl.arr, idx: x.intAdd(sl.off, idx), elem: xt.Elem()}
	case *types.Pointer:
		arr := xt.Elem().Underlying().(*types.Array)
		x.oblige("IDX", fmt.Sprintf("array index %s", v.Index.Name()), g,
			tc.And(x.intLe(x.refConst(0), idx), x.intLt(idx, x.refConst(arr.Len()))), v.Pos())
		switch pv := xv.(type) {
		case *Term:
			return &Place{kind: pkElem, arr: pv, idx: idx, elem: arr.Elem()}
		case *Place:
			q := *pv
			q.aidx = idx
			return &q
		}
	}
	unsupp("IndexAddr on %s", v.X.Type())
	return nil
}

func (x *FnExec) sliceInstr(fr *Frame, v *ssa.Slice, st *State, g *Term) Value {
	tc := x.tc
	z := x.refConst(0)
	get := func(o ssa.Value) *Term {
		if o == nil {
			return nil
		}
		return x.toRefSort(fr.val(o).(*Term), o.Type())
	}
	lo, hi, mx := get(v.Low), get(v.High), get(v.Max)
	if lo == nil {
		lo = z
	}
	switch xt := v.X.Type().Underlying().(type) {
	case *types.Slice:
		sl := fr.val(v.X).(*SliceV)
		if hi == nil {
			hi = sl.ln
		}
		capv := sl.cp
		if mx != nil {
			x.oblige("IDX", "slice max in range", g, tc.And(x.intLe(hi, mx), x.intLe(mx, sl.cp)), v.Pos())
			capv = mx
		}
		x.oblige("IDX", fmt.Sprintf("slice bounds of %s", v.X.Name()), g, tc.And(x.intLe(z, lo), x.intLe(lo, hi), x.intLe(hi, capv)), v.Pos())
		return &SliceV{sl.arr, x.intAdd(sl.off, lo), x.intSub(hi, lo), x.intSub(capv, lo)}
	case *types.Basic: // string
		s := fr.val(v.X).(*Term)
		ln := x.strLen(s)
		if hi == nil {
			hi = ln
		}
		x.oblige("IDX", "string slice bounds", g, tc.And(x.intLe(z, lo), x.intLe(lo, hi), x.intLe(hi, ln)), v.Pos())
		r := tc.UF("substr", x.refSort(), s, lo, hi)
		x.addFact(tc.Eq(x.strLen(r), x.intSub(hi, lo)))
		if !lo.bound && !hi.bound {
			i := tc.BVar("i", x.refSort())
			x.addFact(tc.Forall([]*Term{i}, tc.Implies(tc.And(x.intLe(z, i), x.intLt(i, x.intSub(hi, lo))), tc.Eq(x.strAt(r, i), x.strAt(s, x.intAdd(lo, i))))))
		}
		return r
	case *types.Pointer:
		arr := xt.Elem().Underlying().(*types.Array)
		n := x.refConst(arr.Len())
		if hi == nil {
			hi = n
		}
		capv := n
		if mx != nil {
			capv = mx
		}
		x.oblige("IDX", "array slice bounds", g, tc.And(x.intLe(z, lo), x.intLe(lo, hi), x.intLe(hi, capv), x.intLe(capv, n)), v.Pos())
		ref, ok := fr.val(v.X).(*Term)
		if !ok {
			unsupp("slicing an array that is not in the element heap")
		}
		return &SliceV{ref, lo, x.intSub(hi, lo), x.intSub(capv, lo)}
	}
	unsupp("Slice on %s", v.X.Type())
	return nil
}

func (x *FnExec) lookup(fr *Frame, v *ssa.Lookup, st *State, g *Term) Value {
	tc := x.tc
	if bt := basicOf(v.X.Type()); bt != nil && bt.Info()&types.IsString != 0 {
		s := fr.val(v.X).(*Term)
		idx := x.toRefSort(fr.val(v.Index).(*Term), v.Index.Type())
		x.oblige("IDX", "string index in range", g, tc.And(x.intLe(x.refConst(0), idx), x.intLt(idx, x.strLen(s))), v.Pos())
		r := x.strAt(s, idx)
		x.rangeFact(r, types.Typ[types.Uint8])
		return r
	}
	return x.mapLookup(fr, v, st, g)
}

// ---------- interfaces ----------

func (x *FnExec) typeTag(t types.Type) *Term {
	k := typeKey(t)
	n, ok := x.typeTags[k]
	if !ok {
		n = len(x.typeTags) + 1
		x.typeTags[k] = n
	}
	return x.refConst(int64(n))
}

func (x *FnExec) ifaceType(id *Term) *Term { return x.tc.UF("typeof", x.refSort(), id) }

func (x *FnExec) makeInterface(fr *Frame, st *State, v Value, t types.Type) Value {
	tc := x.tc
	if _, isIface := t.Underlying().(*types.Interface); isIface {
		return v
	}
	// payload leaves
	var ls []leaf
	func() {
		defer func() {
			if r := recover(); r != nil {
				if _, ok := r.(unsupported); !ok {
					panic(r)
				}
				ls = nil
			}
		}()
		x.leaves(t, "", &ls)
	}()
	var id *Term
	if pv, ok := x.asBoxable(v); ok && len(ls) == 1 {
		// single-scalar payload: the interface value is a function of the payload (Go interface equality)
		id = tc.UF("box:"+typeKey(t), x.refSort(), pv)
		v = pv
		if !x.boxAxiom[typeKey(t)] {
			// boxing is injective and tagged: unbox(box(v)) == v, typeof(box(v)) == tag, box(v) != nil
			x.boxAxiom[typeKey(t)] = true
			bv := tc.BVar("v", pv.sort)
			b := tc.UF("box:"+typeKey(t), x.refSort(), bv)
			x.addFact(tc.Forall([]*Term{bv}, tc.And(tc.Eq(tc.UF("unbox:"+typeKey(t)+ls[0].path, ls[0].sort, b), bv),
				tc.Eq(x.ifaceType(b), x.typeTag(t)), tc.Not(tc.Eq(b, x.refConst(0))))))
		}
	} else {
		id = tc.Fresh("iface", x.refSort())
	}
	if !id.bound {
		x.addFact(tc.Not(tc.Eq(id, x.refConst(0))))
		x.addFact(tc.Eq(x.ifaceType(id), x.typeTag(t)))
	}
	flat := x.flatten(v, t)
	if flat != nil && len(flat) == len(ls) && !id.bound {
		for i, l := range ls {
			x.addFact(tc.Eq(tc.UF("unbox:"+typeKey(t)+l.path, l.sort, id), flat[i]))
		}
	}
	return id
}

// flatten a value into its scalar leaves in leaves() order; nil if not possible.
func (x *FnExec) flatten(v Value, t types.Type) []*Term {
	switch vv := v.(type) {
	case *Term:
		return []*Term{vv}
	case *SliceV:
		return []*Term{vv.arr, vv.off, vv.ln, vv.cp}
	case *StructV:
		u := t.Underlying().(*types.Struct)
		var out []*Term
		for i, f := range vv.fields {
			fl := x.flatten(f, u.Field(i).Type())
			if fl == nil {
				return nil
			}
			out = append(out, fl...)
		}
		return out
	case *ArrV:
		return []*Term{vv.t}
	case *Place:
		if vv.kind == pkHeap && len(vv.path) == 0 {
			return []*Term{vv.ref}
		}
	}
	return nil
}

func (x *FnExec) unflatten(ts []*Term, t types.Type) (Value, []*Term) {
	if s := x.scalarSort(t); s != "" {
		return ts[0], ts[1:]
	}
	switch u := t.Underlying().(type) {
	case *types.Slice:
		return &SliceV{ts[0], ts[1], ts[2], ts[3]}, ts[4:]
	case *types.Struct:
		sv := &StructV{}
		for i := 0; i < u.NumFields(); i++ {
			var f Value
			f, ts = x.unflatten(ts, u.Field(i).Type())
			sv.fields = append(sv.fields, f)
		}
		return sv, ts
	case *types.Array:
		return &ArrV{t: ts[0], n: u.Len()}, ts[1:]
	}
	unsupp("unflatten %s", t)
	return nil, nil
}

func (x *FnExec) typeAssert(fr *Frame, v *ssa.TypeAssert, st *State, g *Term) Value {
	tc := x.tc
	id := fr.val(v.X).(*Term)
	at := v.AssertedType
	if _, isIface := at.Underlying().(*types.Interface); isIface {
		// interface-to-interface: succeeds iff non-nil and implements; we cannot decide implements in general
		ok := tc.Fresh("implements", SBool)
		if v.CommaOk {
			return TupleV{id, tc.And(ok, tc.Not(tc.Eq(id, x.refConst(0))))}
		}
		unsupp("interface-to-interface assertion without comma-ok")
	}
	ok := tc.And(tc.Not(tc.Eq(id, x.refConst(0))), tc.Eq(x.ifaceType(id), x.typeTag(at)))
	var ls []leaf
	x.leaves(at, "", &ls)
	var ts []*Term
	for _, l := range ls {
		u := tc.UF("unbox:"+typeKey(at)+l.path, l.sort, id)
		ts = append(ts, u)
		if l.typ != nil {
			x.rangeFact(u, l.typ)
		}
	}
	val, _ := x.unflatten(ts, at)
	if sl, isSl := val.(*SliceV); isSl {
		x.sliceFacts(sl)
	}
	if v.CommaOk {
		return TupleV{val, ok}
	}
	x.oblige("TYPEASSERT", fmt.Sprintf("type assertion to %s", at), g, ok, v.Pos())
	return val
}

// ---------- maps (dom/val arrays + cardinality) ----------

func (x *FnExec) mapHeaps(st *State, mt *types.Map) (dom, val, card string, ks, vs Sort) {
	ks = x.scalarSort(mt.Key())
	if ks == "" {
		unsupp("map key type %s", mt.Key())
	}
	vs = x.scalarSort(mt.Elem())
	k := typeKey(mt)
	return "mapdom:" + k, "mapval:" + k, "mapcard:" + k, ks, vs
}

func (x *FnExec) makeMap(fr *Frame, v *ssa.MakeMap, st *State) Value {
	tc := x.tc
	mt := v.Type().Underlying().(*types.Map)
	dom, _, card, ks, _ := x.mapHeaps(st, mt)
	r := x.newRef(st)
	rs := x.refSort()
	dh := st.getHeap(dom, SArr(rs, SArr(ks, SBool)))
	st.setHeap(dom, tc.Store(dh, r, x.constArray(SArr(ks, SBool), tc.False())))
	ch := st.getHeap(card, SArr(rs, rs))
	st.setHeap(card, tc.Store(ch, r, x.refConst(0)))
	if x.isBoolMap(mt) {
		_, val, _, _, vs := x.mapHeaps(st, mt)
		vh := st.getHeap(val, SArr(rs, SArr(ks, vs)))
		x.addFact(tc.Eq(x.cntTrue(x.constArray(SArr(ks, SBool), tc.False()), tc.Select(vh, r)), x.refConst(0)))
	}
	return r
}

func (x *FnExec) mapValHeapRead(st *State, mt *types.Map, m, k *Term) Value {
	_, val, _, ks, vs := x.mapHeaps(st, mt)
	rs := x.refSort()
	if vs != "" {
		h := st.getHeap(val, SArr(rs, SArr(ks, vs)))
		r := x.tc.Select(x.tc.Select(h, m), k)
		x.rangeFact(r, mt.Elem())
		return r
	}
	var ls []leaf
	x.leaves(mt.Elem(), "", &ls)
	var ts []*Term
	for _, l := range ls {
		h := st.getHeap(val+l.path, SArr(rs, SArr(ks, l.sort)))
		t := x.tc.Select(x.tc.Select(h, m), k)
		if l.typ != nil {
			x.rangeFact(t, l.typ)
		}
		ts = append(ts, t)
	}
	r, _ := x.unflatten(ts, mt.Elem())
	return r
}

func (x *FnExec) mapLookup(fr *Frame, v *ssa.Lookup, st *State, g *Term) Value {
	tc := x.tc
	mt := v.X.Type().Underlying().(*types.Map)
	dom, _, _, ks, _ := x.mapHeaps(st, mt)
	m := fr.val(v.X).(*Term)
	k := x.asComparable(fr.val(v.Index)).(*Term)
	rs := x.refSort()
	in := tc.And(tc.Not(tc.Eq(m, x.refConst(0))), tc.Select(tc.Select(st.getHeap(dom, SArr(rs, SArr(ks, SBool))), m), k))
	val := x.mapValHeapRead(st, mt, m, k)
	// a stored map value is a well-formed value of its type (slice headers in range, references allocated)
	x.inputFacts(st, val, mt.Elem())
	x.wellFormedSlices(val)
	zero := x.zeroVal(mt.Elem())
	res := x.iteVal(in, val, zero)
	if v.CommaOk {
		return TupleV{res, in}
	}
	return res
}

func (x *FnExec) mapUpdate(fr *Frame, v *ssa.MapUpdate, st *State, g *Term) {
	tc := x.tc
	mt := v.Map.Type().Underlying().(*types.Map)
	dom, val, card, ks, vs := x.mapHeaps(st, mt)
	m := fr.val(v.Map).(*Term)
	k := x.asComparable(fr.val(v.Key)).(*Term)
	rs := x.refSort()
	x.oblige("NIL", "assignment to entry in nil map", g, tc.Not(tc.Eq(m, x.refConst(0))), v.Pos())
	if fr.top && x.top != nil {
		bumped := false
		for _, ma := range x.top.MapAsserts {
			if !staticDebugName(fr.fn, ma.Callee, v.Map) {
				continue
			}
			ev := x.specEnv(fr, st, x.entry, x.top)
			ev.atInstr = v
			ev.vars["mapkey"] = TV{fr.val(v.Key), v.Key.Type()}
			ev.vars["mapval"] = TV{fr.val(v.Value), v.Value.Type()}
			x.oblige("ASSERT", "at update of "+ma.Callee+": "+ma.Cl.Text, g, ev.evalBool(ma.Cl.E), v.Pos())
			bumped = true
		}
		if bumped {
			// several mapassert clauses on one map are all evaluated in the state before the update; one bump
			gt := x.ghostTypes["mapupd"]
			if gt == nil {
				gt = types.NewNamed(types.NewTypeName(0, nil, "ghost_mapupd", nil), types.Typ[types.Int], nil)
				x.ghostTypes["mapupd"] = gt
			}
			pl := &Place{kind: pkHeap, ref: m, obj: gt}
			cur := x.load(st, pl).(*Term)
			x.store(st, pl, x.intAdd(cur, x.refConst(1)))
		}
	}
	dh := st.getHeap(dom, SArr(rs, SArr(ks, SBool)))
	was := tc.Select(tc.Select(dh, m), k)
	st.setHeap(dom, tc.Store(dh, m, tc.Store(tc.Select(dh, m), k, tc.True())))
	ch := st.getHeap(card, SArr(rs, rs))
	st.setHeap(card, tc.Store(ch, m, tc.Ite(was, tc.Select(ch, m), x.intAdd(tc.Select(ch, m), x.refConst(1)))))
	nv := fr.val(v.Value)
	if vs != "" {
		h := st.getHeap(val, SArr(rs, SArr(ks, vs)))
		nvt := x.asComparable(nv).(*Term)
		if x.isBoolMap(mt) {
			oldDom, oldVal := tc.Select(dh, m), tc.Select(h, m)
			newDom, newVal := tc.Store(oldDom, k, tc.True()), tc.Store(oldVal, k, nvt)
			one, zero := x.refConst(1), x.refConst(0)
			delta := x.intSub(tc.Ite(nvt, one, zero), tc.Ite(tc.And(was, tc.Select(oldVal, k)), one, zero))
			x.assume(g, tc.Eq(x.cntTrue(newDom, newVal), x.intAdd(x.cntTrue(oldDom, oldVal), delta)))
		}
		st.setHeap(val, tc.Store(h, m, tc.Store(tc.Select(h, m), k, nvt)))
		return
	}
	var ls []leaf
	x.leaves(mt.Elem(), "", &ls)
	flat := x.flatten(nv, mt.Elem())
	for i, l := range ls {
		h := st.getHeap(val+l.path, SArr(rs, SArr(ks, l.sort)))
		st.setHeap(val+l.path, tc.Store(h, m, tc.Store(tc.Select(h, m), k, flat[i])))
	}
}

// cntTrue: number of keys k with dom[k] && val[k] (bool-valued maps); an uninterpreted function whose
// defining update equations are emitted at every map update / iteration step.
func (x *FnExec) cntTrue(dom, val *Term) *Term {
	return x.tc.UF("cnttrue", x.refSort(), dom, val)
}

func (x *FnExec) isBoolMap(mt *types.Map) bool {
	b, ok := mt.Elem().Underlying().(*types.Basic)
	return ok && b.Info()&types.IsBoolean != 0
}

func (x *FnExec) mapDelete(st *State, mt *types.Map, m, k *Term) {
	tc := x.tc
	dom, _, card, ks, _ := x.mapHeaps(st, mt)
	rs := x.refSort()
	dh := st.getHeap(dom, SArr(rs, SArr(ks, SBool)))
	was := tc.Select(tc.Select(dh, m), k)
	st.setHeap(dom, tc.Store(dh, m, tc.Store(tc.Select(dh, m), k, tc.False())))
	ch := st.getHeap(card, SArr(rs, rs))
	st.setHeap(card, tc.Store(ch, m, tc.Ite(was, x.intSub(tc.Select(ch, m), x.refConst(1)), tc.Select(ch, m))))
}

func (x *FnExec) mapLen(st *State, mt *types.Map, m *Term) *Term {
	_, _, card, _, _ := x.mapHeaps(st, mt)
	rs := x.refSort()
	c := x.tc.Select(st.getHeap(card, SArr(rs, rs)), m)
	r := x.tc.Ite(x.tc.Eq(m, x.refConst(0)), x.refConst(0), c)
	if !r.bound {
		x.addFact(x.tc.And(x.intLe(x.refConst(0), c), x.intLe(c, x.intConstSort(1<<48, x.refSort()))))
		// an empty map has no keys
		dom, _, _, ks, _ := x.mapHeaps(st, mt)
		bk := x.tc.BVar("k", ks)
		domArr := x.tc.Select(st.getHeap(dom, SArr(rs, SArr(ks, SBool))), m)
		x.addFact(x.tc.Implies(x.tc.Eq(c, x.refConst(0)), x.tc.Forall([]*Term{bk}, x.tc.Not(x.tc.Select(domArr, bk)))))
	}
	return r
}

// range over maps: visited-set model.  The iterator value is a ghost "visited" set symbol.
type mapIter struct {
	mt  *types.Map
	m   *Term
	rng *ssa.Range
}

func (x *FnExec) rangeInit(fr *Frame, v *ssa.Range, st *State, g *Term) Value {
	mt, ok := v.X.Type().Underlying().(*types.Map)
	if !ok {
		unsupp("range over %s (only slices and maps are modelled)", v.X.Type())
	}
	ks := x.scalarSort(mt.Key())
	if ks == "" {
		unsupp("range over map with compound key")
	}
	// visited-set model: nothing visited yet
	if x.isBoolMap(mt) {
		_, valK, _, _, vs := x.mapHeaps(st, mt)
		rs := x.refSort()
		valArr := x.tc.Select(st.getHeap(valK, SArr(rs, SArr(ks, vs))), fr.val(v.X).(*Term))
		x.assume(g, x.tc.Eq(x.cntTrue(x.constArray(SArr(ks, SBool), x.tc.False()), valArr), x.refConst(0)))
	}
	st.setCell(v, TupleV{x.constArray(SArr(ks, SBool), x.tc.False()), x.refConst(0)})
	return &mapIter{mt: mt, m: fr.val(v.X).(*Term), rng: v}
}

// rangeNext: each step picks an arbitrary unvisited key of the map; the loop ends when every key was visited.
// Any dependence of the result on iteration order therefore shows up as a failed obligation.
func (x *FnExec) rangeNext(fr *Frame, v *ssa.Next, st *State, g *Term) Value {
	tc := x.tc
	it, ok := fr.val(v.Iter).(*mapIter)
	if !ok {
		unsupp("next on non-map iterator")
	}
	mt := it.mt
	dom, _, _, ks, _ := x.mapHeaps(st, mt)
	rs := x.refSort()
	vis, _ := st.getCell(it.rng)
	visited := vis.(TupleV)[0].(*Term)
	count := vis.(TupleV)[1].(*Term)
	domArr := tc.Select(st.getHeap(dom, SArr(rs, SArr(ks, SBool))), it.m)
	isNil := tc.Eq(it.m, x.refConst(0))
	card := x.mapLen(st, mt, it.m)
	k := tc.Fresh("rangekey", ks)
	x.rangeFact(k, mt.Key())
	okT := tc.Fresh("rangeok", SBool)
	bk := tc.BVar("k", ks)
	// visited keys are keys of the map, each counted once
	x.assume(g, tc.And(x.intLe(x.refConst(0), count), x.intLe(count, card)))
	x.assume(g, tc.Implies(okT, tc.And(tc.Not(isNil), tc.Select(domArr, k), tc.Not(tc.Select(visited, k)), x.intLt(count, card))))
	x.assume(g, tc.Implies(tc.Not(okT), tc.And(tc.Eq(count, card), tc.Or(isNil, tc.Forall([]*Term{bk}, tc.Implies(tc.Select(domArr, bk), tc.Select(visited, bk)))))))
	if x.isBoolMap(mt) {
		_, valK, _, _, vs := x.mapHeaps(st, mt)
		valArr := tc.Select(st.getHeap(valK, SArr(rs, SArr(ks, vs))), it.m)
		one, zero := x.refConst(1), x.refConst(0)
		x.assume(g, tc.Implies(okT, tc.Eq(x.cntTrue(tc.Store(visited, k, tc.True()), valArr), x.intAdd(x.cntTrue(visited, valArr), tc.Ite(tc.Select(valArr, k), one, zero)))))
		x.assume(g, tc.Implies(tc.Not(okT), tc.Eq(x.cntTrue(visited, valArr), x.cntTrue(domArr, valArr))))
		x.assume(g, tc.And(x.intLe(zero, x.cntTrue(visited, valArr)), x.intLe(x.cntTrue(visited, valArr), count)))
	}
	st.setCell(it.rng, TupleV{tc.Ite(okT, tc.Store(visited, k, tc.True()), visited), tc.Ite(okT, x.intAdd(count, x.refConst(1)), count)})
	val := x.mapValHeapRead(st, mt, it.m, k)
	return TupleV{okT, k, val}
}

// constBytesGlobal: a never-reassigned []byte global initialised from a string constant.
// Assumption (listed in evidence): nobody mutates its elements and no input aliases it.
func (x *FnExec) constBytesGlobal(st *State, gl *ssa.Global, s string) Value {
	tc := x.tc
	ref := tc.Sym("globarr:"+gl.String(), x.refSort())
	if !x.ranged[-ref.id] {
		x.ranged[-ref.id] = true
		x.addFact(tc.And(x.intLt(x.refConst(0), ref), x.intLt(ref, x.entry.alloc)))
		x.notes = append(x.notes, "global byte slice "+gl.Name()+" treated as the constant "+fmt.Sprintf("%q", s)+" (never reassigned; element immutability assumed)")
	}
	n := x.refConst(int64(len(s)))
	sl := &SliceV{ref, x.refConst(0), n, n}
	for i := 0; i < len(s); i++ {
		p := &Place{kind: pkElem, arr: ref, idx: x.refConst(int64(i)), elem: types.Typ[types.Uint8]}
		el := x.load(st, p).(*Term)
		var c *Term
		if x.bv {
			c = tc.BV(big.NewInt(int64(s[i])), 8)
		} else {
			c = tc.Int(int64(s[i]))
		}
		x.addFact(tc.Eq(el, c))
	}
	return sl
}
