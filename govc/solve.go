package main

import (
	"context"
	"fmt"
	"os"
	"os/exec"
	"path/filepath"
	"strings"
	"sync"
	"time"
)

type solverSpec struct {
	name string
	args func(file string, timeout time.Duration) []string
}

var solvers = []solverSpec{
	{"z3-new", func(f string, t time.Duration) []string {
		return []string{"z3-new", fmt.Sprintf("-T:%d", int(t.Seconds())+1), f}
	}},
	{"cvc5", func(f string, t time.Duration) []string {
		return []string{"cvc5", fmt.Sprintf("--tlimit=%d", t.Milliseconds()), "--produce-models", f}
	}},
	{"z3", func(f string, t time.Duration) []string {
		return []string{"z3", fmt.Sprintf("-T:%d", int(t.Seconds())+1), f}
	}},
}

type solveResult struct {
	solver string
	result string // unsat | sat | unknown | timeout | error
	out    string
	ms     int64
}

func runSolver(ctx context.Context, s solverSpec, file string, timeout time.Duration) solveResult {
	start := time.Now()
	args := s.args(file, timeout)
	cctx, cancel := context.WithTimeout(ctx, timeout+2*time.Second)
	defer cancel()
	cmd := exec.CommandContext(cctx, args[0], args[1:]...)
	out, _ := cmd.CombinedOutput()
	ms := time.Since(start).Milliseconds()
	text := string(out)
	first := strings.TrimSpace(strings.SplitN(text, "\n", 2)[0])
	res := "unknown"
	switch {
	case first == "unsat":
		res = "unsat"
	case first == "sat":
		res = "sat"
	case first == "unknown":
		res = "unknown"
	case first == "timeout" || cctx.Err() != nil:
		res = "timeout"
	case strings.Contains(first, "error") || strings.Contains(first, "Error"):
		res = "error"
	}
	return solveResult{s.name, res, text, ms}
}

// solveQuery races the solvers; first definite answer wins (unless all=true: collect all).
func solveQuery(file string, timeout time.Duration, all bool) []solveResult {
	ctx, cancel := context.WithCancel(context.Background())
	defer cancel()
	ch := make(chan solveResult, len(solvers))
	for _, s := range solvers {
		go func(s solverSpec) { ch <- runSolver(ctx, s, file, timeout) }(s)
	}
	var rs []solveResult
	for range solvers {
		r := <-ch
		rs = append(rs, r)
		if !all && (r.result == "unsat" || r.result == "sat") {
			cancel()
			// put the winner first
			rs[0], rs[len(rs)-1] = rs[len(rs)-1], rs[0]
			return rs
		}
	}
	// order: definite answers first
	for i, r := range rs {
		if r.result == "unsat" || r.result == "sat" {
			rs[0], rs[i] = rs[i], rs[0]
			break
		}
	}
	return rs
}

type solveJob struct {
	x   *FnExec
	o   *Obl
	dir string
}

func (x *FnExec) queryFor(o *Obl, model bool) string {
	return x.queryForDepth(o, model, -1)
}

// queryForDepth: depth >= 0 keeps only the assumptions within `depth` symbol-sharing steps of the goal and
// path condition (a subset of the assumptions: an unsat answer is still a proof).
func (x *FnExec) queryForDepth(o *Obl, model bool, depth int) string {
	x.tcMu.Lock()
	defer x.tcMu.Unlock()
	var as []*Term
	if depth >= 0 {
		defer func() {}()
	}
	// partial evaluation of everything under the literals of the path condition
	env := x.tc.newSimpEnv(o.Guard)
	for _, f := range x.facts[:o.NFacts] {
		if s := env.simp(f); !s.isTrue() {
			as = append(as, s)
		}
	}
	for _, f := range x.assumes[:o.NAssume] {
		if s := env.simp(f); !s.isTrue() {
			as = append(as, s)
		}
	}
	var goalT *Term
	if !o.Cover {
		goalT = x.tc.Not(env.simp(o.Goal))
	}
	if depth >= 0 && goalT != nil {
		memo := x.symMemo
		if memo == nil {
			memo = map[*Term]map[string]bool{}
			x.symMemo = memo
		}
		rel := map[string]bool{}
		for k := range x.tc.symsOf(goalT, memo) {
			rel[k] = true
		}
		for k := range x.tc.symsOf(o.Guard, memo) {
			rel[k] = true
		}
		keep := make([]bool, len(as))
		for round := 0; round <= depth; round++ {
			var add []map[string]bool
			for i, a := range as {
				if keep[i] {
					continue
				}
				sy := x.tc.symsOf(a, memo)
				hit := false
				for k := range sy {
					if rel[k] && !strings.HasPrefix(k, "uf:strlen") && !strings.HasPrefix(k, "uf:typeof") {
						hit = true
						break
					}
				}
				if hit {
					keep[i] = true
					add = append(add, sy)
				}
			}
			for _, sy := range add {
				for k := range sy {
					// heap roots connect everything: do not propagate through them
					if strings.HasPrefix(k, "H") && strings.Contains(k, "/") {
						continue
					}
					rel[k] = true
				}
			}
		}
		var filtered []*Term
		for i, a := range as {
			if keep[i] {
				filtered = append(filtered, a)
			}
		}
		as = filtered
	}
	as = append(as, o.Guard)
	if goalT != nil {
		as = append(as, goalT)
	}
	return x.tc.Query("ALL", as, model, nil)
}

func solveAll(jobs []solveJob, timeout time.Duration, par int, all bool) {
	var wg sync.WaitGroup
	sem := make(chan struct{}, par)
	for _, j := range jobs {
		wg.Add(1)
		sem <- struct{}{}
		go func(j solveJob) {
			defer wg.Done()
			defer func() { <-sem }()
			o := j.o
			// syntactic discharge
			if !o.Cover && (o.Goal.isTrue() || o.Guard.isFalse()) {
				o.Result, o.Solver = "unsat", "syntactic"
				return
			}
			if o.RawQuery != "" {
				f := filepath.Join(j.dir, sanitize(o.Name)+".smt2")
				os.WriteFile(f, []byte(o.RawQuery), 0o644)
				rs := solveQuery(f, timeout, false)
				o.Result, o.Solver, o.Ms, o.Query = rs[0].result, rs[0].solver, rs[0].ms, o.RawQuery
				return
			}
			if !o.Cover {
				// first attempt: only the assumptions near the goal (a subset, so unsat is still a proof)
				qf := j.x.queryForDepth(o, false, 2)
				ff := filepath.Join(j.dir, sanitize(o.Name)+".near.smt2")
				os.WriteFile(ff, []byte(qf), 0o644)
				tshort := timeout / 2
				if tshort < 2*time.Second {
					tshort = 2 * time.Second
				}
				rs := solveQuery(ff, tshort, false)
				if rs[0].result == "unsat" {
					o.Result, o.Solver, o.Ms = "unsat", rs[0].solver+"(near)", rs[0].ms
					return
				}
			}
			q := j.x.queryFor(o, true)
			o.Query = q
			if len(q) > 4<<20 {
				o.Result, o.Solver = "over-cap", "none"
				return
			}
			f := filepath.Join(j.dir, sanitize(o.Name)+".smt2")
			os.WriteFile(f, []byte(q), 0o644)
			to := timeout
			if o.Cover && to > 3*time.Second {
				to = 3 * time.Second
			}
			rs := solveQuery(f, to, all && !o.Cover)
			o.Result, o.Solver, o.Ms = rs[0].result, rs[0].solver, rs[0].ms
			if rs[0].result == "sat" {
				o.Model = rs[0].out
			}
			if all {
				// agreement check
				var verdicts []string
				for _, r := range rs {
					verdicts = append(verdicts, r.solver+"="+r.result)
					if (r.result == "sat" && o.Result == "unsat") || (r.result == "unsat" && o.Result == "sat") {
						o.Result = "disagree"
					}
				}
				o.Solver = strings.Join(verdicts, ",")
			}
			var cases []*Term
			if o.Result != "unsat" && o.Result != "sat" && !o.Cover {
				j.x.tcMu.Lock()
				cases = j.x.tc.SplitCases(o.Guard, 64)
				j.x.tcMu.Unlock()
			}
			if len(cases) > 1 {
				// case split over the paths merged into this obligation's path condition
				allUnsat := true
				var total int64
				for ci, d := range cases {
					sub := *o
					sub.Guard = d
					q2 := j.x.queryForDepth(&sub, false, 2)
					f2 := filepath.Join(j.dir, sanitize(o.Name)+fmt.Sprintf(".case%d.near.smt2", ci))
					os.WriteFile(f2, []byte(q2), 0o644)
					r2 := solveQuery(f2, to/2, false)
					if r2[0].result != "unsat" {
						// a tighter cone of influence (still a subset of the assumptions, so unsat is a proof)
						q1 := j.x.queryForDepth(&sub, false, 1)
						f1 := filepath.Join(j.dir, sanitize(o.Name)+fmt.Sprintf(".case%d.near1.smt2", ci))
						os.WriteFile(f1, []byte(q1), 0o644)
						if r1 := solveQuery(f1, to/2, false); r1[0].result == "unsat" {
							r2 = r1
						}
					}
					if r2[0].result != "unsat" {
						q2 = j.x.queryFor(&sub, false)
						f2 = filepath.Join(j.dir, sanitize(o.Name)+fmt.Sprintf(".case%d.smt2", ci))
						os.WriteFile(f2, []byte(q2), 0o644)
						r2 = solveQuery(f2, to, false)
					}
					total += r2[0].ms
					if r2[0].result != "unsat" {
						allUnsat = false
						break
					}
				}
				if allUnsat {
					o.Result, o.Solver, o.Ms = "unsat", fmt.Sprintf("case-split(%d)", len(cases)), o.Ms+total
				}
			}
			if o.Result != "unsat" && o.Result != "sat" {
				var outs []string
				for _, r := range rs {
					outs = append(outs, r.solver+": "+strings.TrimSpace(firstLines(r.out, 3)))
				}
				o.Model = strings.Join(outs, "\n")
			}
		}(j)
	}
	wg.Wait()
}

func firstLines(s string, n int) string {
	ls := strings.Split(s, "\n")
	if len(ls) > n {
		ls = ls[:n]
	}
	return strings.Join(ls, "\n")
}
