package main

// Mechanical generation of a pure-Go stub of github.com/youzan/gorocksdb (cgo
// binding that cannot be linked in this sandbox) so that /repo type-checks.
// The stub is scaffolding only: nothing is proved about it.

import (
	"bytes"
	"fmt"
	"go/ast"
	"go/format"
	"go/parser"
	"go/token"
	"os"
	"path/filepath"
	"strings"
)

const gorocksSrc = "/root/go/pkg/mod/github.com/youzan/gorocksdb@v0.0.0-20201201080653-1a9b5c65c962"

func mentionsC(n ast.Node) bool {
	found := false
	if n == nil {
		return false
	}
	ast.Inspect(n, func(x ast.Node) bool {
		if se, ok := x.(*ast.SelectorExpr); ok {
			if id, ok := se.X.(*ast.Ident); ok && id.Name == "C" {
				found = true
			}
		}
		return !found
	})
	return found
}

func replaceCTypes(n ast.Node) {
	// replace any type expression mentioning C.x by uintptr
	ast.Inspect(n, func(x ast.Node) bool {
		switch t := x.(type) {
		case *ast.Field:
			if mentionsC(t.Type) {
				t.Type = ast.NewIdent("uintptr")
			}
		case *ast.TypeSpec:
			if mentionsC(t.Type) {
				if st, ok := t.Type.(*ast.StructType); ok {
					for _, f := range st.Fields.List {
						if mentionsC(f.Type) {
							f.Type = ast.NewIdent("uintptr")
						}
					}
				} else {
					t.Type = ast.NewIdent("uintptr")
				}
			}
		}
		return true
	})
}

// functions whose real (C-free) bodies are kept so that package init and pure-Go helpers work
var keepBody = map[string]bool{"NewCOWList": true, "Append": true, "Get": true}

func genStub(dst string) error {
	os.RemoveAll(dst)
	if err := os.MkdirAll(dst, 0o755); err != nil {
		return err
	}
	fset := token.NewFileSet()
	ents, err := os.ReadDir(gorocksSrc)
	if err != nil {
		return err
	}
	for _, e := range ents {
		name := e.Name()
		if !strings.HasSuffix(name, ".go") || strings.HasSuffix(name, "_test.go") {
			continue
		}
		f, err := parser.ParseFile(fset, filepath.Join(gorocksSrc, name), nil, 0)
		if err != nil {
			return err
		}
		var decls []ast.Decl
		for _, d := range f.Decls {
			switch dd := d.(type) {
			case *ast.GenDecl:
				if dd.Tok == token.IMPORT {
					var specs []ast.Spec
					for _, s := range dd.Specs {
						is := s.(*ast.ImportSpec)
						if is.Path.Value == `"C"` {
							continue
						}
						specs = append(specs, s)
					}
					if len(specs) == 0 {
						continue
					}
					dd.Specs = specs
					decls = append(decls, dd)
					continue
				}
				if dd.Tok == token.CONST || dd.Tok == token.VAR {
					for _, s := range dd.Specs {
						vs := s.(*ast.ValueSpec)
						if vs.Type != nil && mentionsC(vs.Type) {
							vs.Type = ast.NewIdent("uintptr")
						}
						for i, v := range vs.Values {
							if mentionsC(v) {
								// keep a conversion wrapper if any: T(C.x) -> T(0)
								if ce, ok := v.(*ast.CallExpr); ok && len(ce.Args) == 1 && !mentionsC(ce.Fun) {
									ce.Args[0] = &ast.BasicLit{Kind: token.INT, Value: fmt.Sprint(i)}
								} else {
									vs.Values[i] = &ast.BasicLit{Kind: token.INT, Value: "0"}
								}
							}
						}
					}
					decls = append(decls, dd)
					continue
				}
				replaceCTypes(dd)
				decls = append(decls, dd)
			case *ast.FuncDecl:
				if mentionsC(dd.Type) || (dd.Recv != nil && mentionsC(dd.Recv)) {
					continue
				}
				if dd.Body != nil && (mentionsC(dd.Body) || !keepBody[dd.Name.Name]) {
					dd.Body = &ast.BlockStmt{List: []ast.Stmt{&ast.ExprStmt{X: &ast.CallExpr{
						Fun:  ast.NewIdent("panic"),
						Args: []ast.Expr{&ast.BasicLit{Kind: token.STRING, Value: `"gorocksdb stub"`}},
					}}}}
				}
				decls = append(decls, dd)
			}
		}
		f.Decls = decls
		f.Comments = nil
		f.Doc = nil
		// prune unused imports
		used := map[string]bool{}
		ast.Inspect(f, func(x ast.Node) bool {
			if se, ok := x.(*ast.SelectorExpr); ok {
				if id, ok := se.X.(*ast.Ident); ok {
					used[id.Name] = true
				}
			}
			return true
		})
		var decls2 []ast.Decl
		for _, d := range f.Decls {
			if gd, ok := d.(*ast.GenDecl); ok && gd.Tok == token.IMPORT {
				var specs []ast.Spec
				for _, s := range gd.Specs {
					is := s.(*ast.ImportSpec)
					p := strings.Trim(is.Path.Value, `"`)
					nm := p[strings.LastIndex(p, "/")+1:]
					if is.Name != nil {
						nm = is.Name.Name
					}
					if used[nm] {
						specs = append(specs, s)
					}
				}
				if len(specs) == 0 {
					continue
				}
				gd.Specs = specs
			}
			decls2 = append(decls2, d)
		}
		f.Decls = decls2
		var buf bytes.Buffer
		if err := format.Node(&buf, fset, f); err != nil {
			return fmt.Errorf("%s: %v", name, err)
		}
		if err := os.WriteFile(filepath.Join(dst, name), buf.Bytes(), 0o644); err != nil {
			return err
		}
	}
	return os.WriteFile(filepath.Join(dst, "go.mod"), []byte("module github.com/youzan/gorocksdb\n\ngo 1.13\n"), 0o644)
}

// prepareBuild writes the stub and the alternate modfile under buildDir and
// returns the -modfile path.
func prepareBuild(repo, buildDir string) (string, error) {
	stub := filepath.Join(buildDir, "gorocksdb_stub")
	if err := genStub(stub); err != nil {
		return "", err
	}
	mod, err := os.ReadFile(filepath.Join(repo, "go.mod"))
	if err != nil {
		return "", err
	}
	sum, err := os.ReadFile(filepath.Join(repo, "go.sum"))
	if err != nil {
		return "", err
	}
	mod = append(mod, []byte("\nreplace github.com/youzan/gorocksdb => "+stub+"\n")...)
	mf := filepath.Join(buildDir, "repo.mod")
	if err := os.WriteFile(mf, mod, 0o644); err != nil {
		return "", err
	}
	if err := os.WriteFile(filepath.Join(buildDir, "repo.sum"), sum, 0o644); err != nil {
		return "", err
	}
	return mf, nil
}
