package main

import (
	"encoding/json"
	"flag"
	"fmt"
	"os"
	"os/exec"
	"strings"
	"time"
)

// replay: re-decide one recorded obligation against the CURRENT tree.
//  1. the saved SMT query (the verification condition as generated when the violation was reported) is re-run on
//     every installed solver, so the recorded verdict and counterexample model can be inspected again;
//  2. the obligation's function is re-verified from /repo's current source; exit 1 with a VIOLATION line if the
//     obligation still fails, exit 0 if it is discharged now.
//
// Counterexamples that were turned into executable Go tests live in /verif/findings/*/zz_replay_test.go (run with
// go test -overlay, see the README next to each).
func mainReplay(args []string) int {
	fs := flag.NewFlagSet("replay", flag.ExitOnError)
	prop := fs.String("prop", "", "property id")
	file := fs.String("file", "", "replay file written by a failed check")
	fs.Parse(args)
	data, err := os.ReadFile(*file)
	if err != nil {
		fmt.Println("cannot read replay file:", err)
		return 2
	}
	var info map[string]interface{}
	if err := json.Unmarshal(data, &info); err != nil {
		fmt.Println("bad replay file:", err)
		return 2
	}
	obl, _ := info["obligation"].(string)
	fmt.Printf("replay of obligation %s (property %s)\n  meaning: %v\n  recorded verdict: %v by %v\n", obl, *prop, info["meaning"], info["verdict"], info["solver"])
	if qf, ok := info["query_file"].(string); ok {
		if _, err := os.Stat(qf); err == nil {
			for _, sv := range [][]string{{"z3-new", "-T:20", qf}, {"cvc5", "--tlimit=20000", qf}, {"z3", "-T:20", qf}} {
				t0 := time.Now()
				out, _ := exec.Command(sv[0], sv[1:]...).CombinedOutput()
				first := strings.SplitN(strings.TrimSpace(string(out)), "\n", 2)[0]
				fmt.Printf("  recorded query on %-6s: %s (%d ms)  [unsat = obligation holds, sat = counterexample]\n", sv[0], first, time.Since(t0).Milliseconds())
			}
		}
	}
	if so, ok := info["solver_output"].(string); ok && so != "" {
		if len(so) > 1500 {
			so = so[:1500] + "..."
		}
		fmt.Printf("  recorded counterexample model:\n%s\n", so)
	}
	i := strings.Index(obl, "#")
	if i < 0 {
		fmt.Println("no function in obligation name; re-running the whole property")
		return mainCheck([]string{"--prop", *prop, "--no-evidence"})
	}
	fmt.Printf("re-verifying %s from the current tree ...\n", obl[:i])
	return mainCheck([]string{"--prop", *prop, "--no-evidence", "--fn", obl[:i], "--obligation", obl})
}
