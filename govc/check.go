package main

import (
	"encoding/json"
	"flag"
	"fmt"
	"os"
	"path/filepath"
	"regexp"
	"runtime"
	"runtime/debug"
	"sort"
	"strconv"
	"strings"
	"time"
)

type fnReport struct {
	Key         string   `json:"function"`
	Mode        string   `json:"mode"`
	Obligations int      `json:"obligations"`
	Discharged  int      `json:"discharged"`
	Error       string   `json:"error,omitempty"`
	Notes       []string `json:"notes,omitempty"`
	Ms          int64    `json:"vcgen_ms"`
	Abstracted  bool     `json:"abstracted,omitempty"`
	Lemma       bool     `json:"lemma,omitempty"`
}

type oblReport struct {
	Name   string `json:"name"`
	Kind   string `json:"kind"`
	Desc   string `json:"desc,omitempty"`
	Result string `json:"result"`
	Solver string `json:"solver"`
	Ms     int64  `json:"ms"`
}

type knownFinding struct {
	Prop, Obligation, Clause, What string
	Fixed                          bool
}

func loadKnownFindings(path string) []knownFinding {
	data, err := os.ReadFile(path)
	if err != nil {
		return nil
	}
	var out []knownFinding
	for _, l := range strings.Split(string(data), "\n") {
		l = strings.TrimSpace(l)
		if l == "" || strings.HasPrefix(l, "#") {
			continue
		}
		kf := knownFinding{}
		if strings.HasPrefix(l, "fixed:") {
			kf.Fixed = true
		} else if !strings.HasPrefix(l, "known:") {
			continue
		}
		rest := l[strings.Index(l, ":")+1:]
		what := ""
		if i := strings.Index(rest, " : "); i >= 0 {
			what = strings.TrimSpace(rest[i+3:])
			rest = rest[:i]
		}
		// clause="<contract clause text>": with it, obligation= is a prefix (function#KIND) and the clause text
		// identifies the obligation, so that editing a contract does not renumber a finding away
		if i := strings.Index(rest, "clause=\""); i >= 0 {
			if j := strings.Index(rest[i+8:], "\""); j >= 0 {
				kf.Clause = rest[i+8 : i+8+j]
				rest = rest[:i] + rest[i+8+j+1:]
			}
		}
		for _, f := range strings.Fields(rest) {
			if strings.HasPrefix(f, "property=") {
				kf.Prop = f[9:]
			}
			if strings.HasPrefix(f, "obligation=") {
				kf.Obligation = f[11:]
			}
		}
		kf.What = what
		out = append(out, kf)
	}
	return out
}

func mainCheck(args []string) int {
	fs := flag.NewFlagSet("check", flag.ExitOnError)
	prop := fs.String("prop", "", "property id")
	tier := fs.String("tier", "quick", "quick|thorough")
	repo := fs.String("repo", "/repo", "repository")
	verif := fs.String("verif", "/verif", "verif dir")
	only := fs.String("only", "", "regexp on function keys")
	verbose := fs.Bool("v", false, "verbose")
	dump := fs.Bool("dump", false, "keep smt files and print failing queries")
	timeoutS := fs.Int("timeout", 0, "per-query timeout seconds")
	noEvidence := fs.Bool("no-evidence", false, "do not write evidence")
	fnExact := fs.String("fn", "", "exact short key of the one function to check (replay)")
	oblExact := fs.String("obligation", "", "replay: report only this obligation")
	fs.Parse(args)
	start := time.Now()
	seed := 0
	fmt.Sscanf(os.Getenv("VERIF_SEED"), "%d", &seed)
	if t := os.Getenv("VERIF_TIER"); t != "" && *tier == "" {
		*tier = t
	}
	timeout := 30 * time.Second
	if *tier == "thorough" {
		timeout = 90 * time.Second
	}
	if *timeoutS > 0 {
		timeout = time.Duration(*timeoutS) * time.Second
	}
	buildDir := filepath.Join(*verif, "build", "p_"+*prop)
	os.MkdirAll(buildDir, 0o755)
	fail := func(msg string) int {
		replay := filepath.Join(*verif, "replays", *prop, "engine.json")
		os.MkdirAll(filepath.Dir(replay), 0o755)
		js, _ := json.MarshalIndent(map[string]string{"obligation": "engine", "error": msg}, "", " ")
		os.WriteFile(replay, js, 0o644)
		fmt.Printf("ENGINE-ERROR: %s\n", msg)
		fmt.Printf("VIOLATION property=%s replay=%s obligation=load no-failing-input-found\n", *prop, replay)
		return 1
	}
	e, err := loadEngine(*repo, buildDir, []string{"./..."})
	if err != nil {
		return fail("cannot load /repo: " + err.Error())
	}
	if err := e.loadContracts(filepath.Join(*verif, "contracts", "trusted")); err != nil {
		return fail("contract files: " + err.Error())
	}
	loadMs := time.Since(start).Milliseconds()
	if *verbose && *prop == "C11" {
		for _, n := range e.genNotes {
			fmt.Println("      gen-note:", n)
		}
	}
	var re *regexp.Regexp
	if *only != "" {
		re = regexp.MustCompile(*only)
	}
	var targets []*Contract
	for _, c := range e.cs.Order {
		if c.Extern || c.Trusted || c.Inline {
			continue
		}
		has := false
		for _, p := range c.Props {
			if p == *prop {
				has = true
			}
		}
		if !has {
			continue
		}
		if re != nil && !re.MatchString(c.Key) {
			continue
		}
		if *fnExact != "" && shortKey(c.Key) != *fnExact {
			continue
		}
		targets = append(targets, c)
	}
	if len(targets) == 0 {
		return fail("no functions under contract for property " + *prop)
	}
	smtDir := filepath.Join(buildDir, "smt")
	os.RemoveAll(smtDir)
	os.MkdirAll(smtDir, 0o755)
	var reports []*fnReport
	var jobs []solveJob
	var execs []*FnExec
	trusted := map[string]bool{}
	var partial []string
	var subsetFailures []*Obl
	type fnres struct {
		x   *FnExec
		rep *fnReport
	}
	results := make([]fnres, len(targets))
	par := 8
	sem := make(chan struct{}, par)
	done := make(chan int, len(targets))
	for i, c := range targets {
		go func(i int, c *Contract) {
			sem <- struct{}{}
			defer func() { <-sem; done <- i }()
			t0 := time.Now()
			rep := &fnReport{Key: shortKey(c.Key), Mode: c.Mode, Lemma: c.Lemma}
			fn := e.funcs[c.Key]
			if fn == nil {
				rep.Error = "function under contract not found in the source (renamed or removed)"
				results[i] = fnres{nil, rep}
				return
			}
			x := newFnExec(e, c, fn)
			x.branchCovers = os.Getenv("VERIF_BRANCH_COVERS") != ""
			func() {
				defer func() {
					if r := recover(); r != nil {
						if u, ok := r.(unsupported); ok {
							rep.Error = "out-of-subset: " + u.msg
						} else {
							rep.Error = fmt.Sprintf("engine panic: %v\n%s", r, debug.Stack())
						}
					}
				}()
				x.verifyFunction()
			}()
			rep.Ms = time.Since(t0).Milliseconds()
			rep.Notes = x.notes
			rep.Abstracted = x.abstracted
			results[i] = fnres{x, rep}
		}(i, c)
	}
	for range targets {
		<-done
	}
	for _, r := range results {
		reports = append(reports, r.rep)
		if r.rep.Error != "" {
			o := &Obl{Name: r.rep.Key + "#SUBSET[1]", Kind: "SUBSET", Desc: r.rep.Error, Result: "undischarged", Solver: "none"}
			subsetFailures = append(subsetFailures, o)
			continue
		}
		x := r.x
		execs = append(execs, x)
		// covers: preconditions satisfiable, return reachable
		nreq := 0
		for _, a := range x.assumes {
			_ = a
			nreq++
		}
		cov := &Obl{Name: shortKey(x.top.Key) + "#COVER[pre]", Kind: "COVER", Desc: "preconditions and input invariants are satisfiable", Guard: x.tc.True(), Goal: x.tc.True(), NAssume: len(x.top.Requires), NFacts: len(x.facts), Cover: true}
		if cov.NAssume > len(x.assumes) {
			cov.NAssume = len(x.assumes)
		}
		x.obls = append(x.obls, cov)
		for lf := range x.lemmaFiles {
			data, err := os.ReadFile(filepath.Join(*verif, "contracts", "lemmas", lf))
			lo := &Obl{Name: shortKey(x.top.Key) + "#LEMMA[" + sanitize(lf) + "]", Kind: "LEMMA", Desc: "arithmetic lemma used as an axiom is itself proved (" + lf + ")", Guard: x.tc.True(), Goal: x.tc.False(), NAssume: 0, NFacts: 0}
			if err == nil {
				lo.RawQuery = string(data)
			}
			x.obls = append(x.obls, lo)
		}
		if only := x.top.Opts["only"]; only != "" {
			// `opt only=ASSERT,POST`: a PARTIAL contract - only obligations of the listed kinds are generated for this
			// function (plus the vacuity covers); its safety obligations (index, nil, ...) are NOT claimed.  Recorded as an
			// assumption in the evidence.
			keep := map[string]bool{}
			for _, k := range strings.Split(only, ",") {
				keep[strings.TrimSpace(k)] = true
			}
			var kept []*Obl
			for _, o := range x.obls {
				if o.Cover || keep[o.Kind] {
					kept = append(kept, o)
				}
			}
			x.obls = kept
			partial = append(partial, shortKey(x.top.Key)+" (only "+only+")")
		}
		for _, o := range x.obls {
			jobs = append(jobs, solveJob{x, o, smtDir})
		}
		for k := range x.trustedUsed {
			trusted[k] = true
		}
	}
	vcMs := time.Since(start).Milliseconds() - loadMs
	solveAll(jobs, timeout, 10, *tier == "thorough" && os.Getenv("VERIF_AGREE") != "")
	// Robustness against a loaded machine (1-minute load average above 60% of the cores when the first pass ends):
	// an obligation that came back undecided (timeout / unknown, no model) is
	// tried once more (at most 6 of them, 3 at a time) with twice the budget, before it is reported.  A refutation
	// (sat) is never retried.  Costs time only when something is about to be reported.
	var retry []solveJob
	for _, j := range jobs {
		if !j.o.Cover && j.o.Result != "unsat" && j.o.Result != "sat" && j.o.Result != "over-cap" && j.o.Kind != "SUBSET" {
			retry = append(retry, j)
		}
	}
	if len(retry) > 0 && len(retry) <= 6 && os.Getenv("VERIF_NO_RETRY") == "" && machineLoaded() {
		for _, j := range retry {
			j.o.Result, j.o.Solver, j.o.Model = "", "", ""
		}
		solveAll(retry, 2*timeout, 3, false)
		for _, j := range retry {
			if j.o.Result == "unsat" {
				j.o.Solver += " [retry]"
			}
		}
	}
	known := loadKnownFindings(filepath.Join(*verif, "known_findings.txt"))
	// collect
	total, discharged, abstractedN, covers, coverBad := 0, 0, 0, 0, 0
	var obls []oblReport
	var failed []*Obl
	byFn := map[string]*fnReport{}
	for _, r := range reports {
		byFn[r.Key] = r
	}
	var samples []interface{}
	solverTime := map[string]int64{}
	for _, j := range jobs {
		o := j.o
		fnKey := o.Name[:strings.Index(o.Name, "#")]
		solverTime[strings.SplitN(o.Solver, "=", 2)[0]] += o.Ms
		if o.Kind == "BRANCH" {
			if o.Result == "unsat" {
				fmt.Printf("      unreachable-branch: %s\n", o.Name)
			}
			continue
		}
		if o.Cover {
			covers++
			if o.Result == "unsat" {
				coverBad++
				failed = append(failed, o)
			}
			continue
		}
		if o.Abstracted {
			abstractedN++
		}
		total++
		if r := byFn[fnKey]; r != nil {
			r.Obligations++
		}
		ok := o.Result == "unsat"
		if ok {
			discharged++
			if r := byFn[fnKey]; r != nil {
				r.Discharged++
			}
		} else {
			failed = append(failed, o)
		}
		obls = append(obls, oblReport{o.Name, o.Kind, o.Desc, o.Result, o.Solver, o.Ms})
		if *verbose && o.Ms > 1500 {
			fmt.Printf("      slow: %s %dms %s (%s)\n", o.Name, o.Ms, o.Result, o.Solver)
		}
		if len(samples) < 4 && o.Solver != "syntactic" && ok {
			samples = append(samples, map[string]string{"obligation": o.Name, "kind": o.Kind, "meaning": o.Desc, "goal_smt": j.x.tc.Show(o.Goal), "path_condition_smt": j.x.tc.Show(o.Guard), "verdict": o.Result + " by " + o.Solver})
		}
	}
	for _, o := range subsetFailures {
		total++
		failed = append(failed, o)
		obls = append(obls, oblReport{o.Name, o.Kind, o.Desc, o.Result, o.Solver, 0})
	}
	// report
	isKnownObl := func(o *Obl) bool {
		for _, k := range known {
			if !k.Fixed && k.Prop == *prop && (k.Obligation == o.Name || (k.Clause != "" && strings.HasPrefix(o.Name, k.Obligation) && strings.Contains(o.Desc, k.Clause))) {
				return true
			}
		}
		return false
	}
	knownByFn := map[string]int{}
	for _, o := range failed {
		if isKnownObl(o) {
			if i := strings.Index(o.Name, "#"); i > 0 {
				knownByFn[o.Name[:i]]++
			}
		}
	}
	sort.Slice(reports, func(i, j int) bool { return reports[i].Key < reports[j].Key })
	for _, r := range reports {
		status := "ok"
		if r.Error != "" {
			status = "ERROR " + r.Error
		} else if r.Discharged+knownByFn[r.Key] == r.Obligations && knownByFn[r.Key] > 0 {
			status = fmt.Sprintf("ok + %d known finding(s)", knownByFn[r.Key])
		} else if r.Discharged != r.Obligations {
			status = "FAILED"
		}
		fmt.Printf("  %-70s %3d/%3d obligations  %s\n", r.Key, r.Discharged, r.Obligations, status)
		if *verbose {
			for _, n := range r.Notes {
				fmt.Printf("      note: %s\n", n)
			}
		}
	}
	violations := 0
	knownHit := 0
	knownLines := []string{}
	replayDir := filepath.Join(*verif, "replays", *prop)
	os.MkdirAll(replayDir, 0o755)
	for _, o := range failed {
		if *oblExact != "" && o.Name != *oblExact {
			continue
		}
		isKnown := false
		for _, k := range known {
			if !k.Fixed && k.Prop == *prop && (k.Obligation == o.Name || (k.Clause != "" && strings.HasPrefix(o.Name, k.Obligation) && strings.Contains(o.Desc, k.Clause))) {
				isKnown = true
				knownLines = append(knownLines, fmt.Sprintf("KNOWN-FINDING: property=%s %s (%s)", *prop, k.What, o.Name))
			}
		}
		if isKnown {
			knownHit++
			continue
		}
		violations++
		rp := filepath.Join(replayDir, sanitize(o.Name)+".json")
		info := map[string]interface{}{
			"property": *prop, "obligation": o.Name, "kind": o.Kind, "meaning": o.Desc,
			"verdict": o.Result, "solver": o.Solver, "solver_output": o.Model,
		}
		if o.Cover {
			info["meaning"] = "vacuity check failed: " + o.Desc
		}
		if o.Query != "" {
			qf := filepath.Join(replayDir, sanitize(o.Name)+".smt2")
			os.WriteFile(qf, []byte(o.Query), 0o644)
			info["query_file"] = qf
		}
		suffix := " no-failing-input-found"
		if o.Result == "sat" && o.Model != "" {
			info["counterexample_model"] = o.Model
			info["replay_note"] = "model is over the verifier's symbolic inputs; automatic replay on the real code is implemented only for value-typed signatures"
		}
		js, _ := json.MarshalIndent(info, "", " ")
		os.WriteFile(rp, js, 0o644)
		desc := o.Desc
		if len(desc) > 160 && !*verbose {
			desc = desc[:160] + "…"
		}
		fmt.Printf("FAILED-OBLIGATION %s [%s] %s -> %s (%s)\n", o.Name, o.Kind, desc, o.Result, o.Solver)
		if *dump && o.Model != "" {
			fmt.Println(firstLines(o.Model, 60))
		}
		fmt.Printf("VIOLATION property=%s replay=%s obligation=%s%s\n", *prop, rp, o.Name, suffix)
	}
	for _, l := range knownLines {
		fmt.Println(l)
	}
	wall := time.Since(start).Seconds()
	fmt.Printf("property %s tier %s: %d functions, %d obligations, %d discharged, %d known-finding, %d covers (%d vacuous), load %dms vcgen %dms total %.1fs\n",
		*prop, *tier, len(reports), total, discharged, knownHit, covers, coverBad, loadMs, vcMs, wall)
	if !*noEvidence && re == nil && os.Getenv("VERIF_NO_EVIDENCE") == "" {
		var tb []string
		for k := range trusted {
			tb = append(tb, "assumed contract: "+k)
		}
		sort.Strings(tb)
		tb = append(tb, "govc VC generator (this repository's /verif/govc) and the SMT solvers z3 4.8.12 / z3 5.1.0 / cvc5 1.0.3",
			"go/ssa (x/tools v0.29.0) as the semantics of the Go source; generated gorocksdb stub for type checking only")
		var fnNames []string
		for _, r := range reports {
			fnNames = append(fnNames, r.Key)
		}
		assumptions := []string{
			"sequential execution of one function activation: sync.Mutex/atomic are no-ops, data-race freedom assumed",
			"partial correctness: termination only where a decreases clause is given",
			"calls are checked against callee contracts (modular); callees marked trusted/extern are assumed, see trusted_base",
			"logging/metrics calls have no modelled effect; Logger.Panic*/Fatal* terminate the path",
			"int mode: 64-bit arithmetic is mathematical with explicit overflow obligations unless a function is marked 'trusted nooverflow'; <=32-bit arithmetic wraps",
			"no allocation failure, stack overflow or GC effects",
		}
		for _, x := range execs {
			for k := range x.crossMode {
				assumptions = append(assumptions, "contract of bv-mode function "+k+" used by int-mode caller "+shortKey(x.top.Key)+": its clauses are read over mathematical integers (agreement relies on the spec expressions not overflowing)")
			}
			if x.top.NoOverflow {
				assumptions = append(assumptions, "machine arithmetic treated as mathematical (overflow obligations waived) in "+shortKey(x.top.Key))
			}
		}
		for _, pf := range partial {
			assumptions = append(assumptions, "PARTIAL contract: only the listed obligation kinds are generated for this function; its other obligations (index, nil, bounds, callee preconditions, and any clause kind not listed) are not, and its ensures are used by callers as written: "+pf)
		}
		if *prop == "C11" {
			for _, n := range e.genNotes {
				assumptions = append(assumptions, "not covered by the generated pairing lemmas: "+n)
			}
		}
		// obligations counted in evidence exclude known findings
		ev := map[string]interface{}{
			"property_id": *prop, "tier": *tier, "seed": seed, "level": "proof",
			"coverage": map[string]interface{}{
				"obligations": total - knownHit, "discharged": discharged,
				"checker_cmd":              fmt.Sprintf("./check %s --tier %s", *prop, *tier),
				"trusted_base":             tb,
				"functions_under_contract": fnNames,
				"functions":                reports,
				"per_obligation":           obls,
				"covers":                   map[string]int{"checked": covers, "vacuous": coverBad},
				"abstracted_obligations":   abstractedN,
				"known_findings":           knownLines,
				"solver_ms":                solverTime,
				"samples":                  samples,
				"backend":                  "SMT: z3-new 5.1.0, cvc5 1.0.3, z3 4.8.12 raced per obligation; 'syntactic' = discharged by term simplification in the generator",
			},
			"assumptions": assumptions,
			"wall_s":      wall,
			"violations":  violations,
		}
		js, _ := json.MarshalIndent(ev, "", " ")
		os.MkdirAll(filepath.Join(*verif, "evidence"), 0o755)
		os.WriteFile(filepath.Join(*verif, "evidence", *prop+".json"), js, 0o644)
	}
	if !*dump {
		os.RemoveAll(smtDir)
	}
	if violations > 0 {
		return 1
	}
	return 0
}

// machineLoaded: is the 1-minute load average above 60% of the number of cores?  (Then a timeout says little.)
func machineLoaded() bool {
	data, err := os.ReadFile("/proc/loadavg")
	if err != nil {
		return true
	}
	f := strings.Fields(string(data))
	if len(f) == 0 {
		return true
	}
	l, err := strconv.ParseFloat(f[0], 64)
	if err != nil {
		return true
	}
	return l > 0.6*float64(runtime.NumCPU())
}
