package main

// Contract files: //@ blocks, and a Pratt parser for the expression language
// (Go expressions + ==>, <==>, forall/exists x T :: e, old(e)).

import (
	"fmt"
	"go/ast"
	"go/parser"
	"go/scanner"
	"go/token"
	"os"
	"strings"
)

type SExpr interface{}

type (
	SIdent struct{ Name string }
	SLit   struct {
		Kind token.Token
		Val  string
	}
	SUnary struct {
		Op string
		X  SExpr
	}
	SBinary struct {
		Op   string
		X, Y SExpr
	}
	SCall struct {
		Fun  SExpr
		Args []SExpr
	}
	SIndex struct{ X, I SExpr }
	SSlice struct{ X, Lo, Hi SExpr }
	SSel   struct {
		X    SExpr
		Name string
	}
	SQuant struct {
		Forall bool
		Vars   []SVar
		Body   SExpr
	}
	SVar struct{ Name, Type string }
)

type tok struct {
	pos token.Pos
	tok token.Token
	lit string
	end token.Pos
}

type sparser struct {
	toks []tok
	p    int
	src  string
}

func parseSpecExpr(src string) (e SExpr, err error) {
	defer func() {
		if r := recover(); r != nil {
			err = fmt.Errorf("spec parse error in %q: %v", src, r)
		}
	}()
	fset := token.NewFileSet()
	f := fset.AddFile("spec", -1, len(src))
	var s scanner.Scanner
	s.Init(f, []byte(src), nil, 0)
	sp := &sparser{src: src}
	for {
		pos, t, lit := s.Scan()
		if t == token.EOF {
			break
		}
		if t == token.SEMICOLON && lit == "\n" {
			continue
		}
		l := lit
		if l == "" {
			l = t.String()
		}
		sp.toks = append(sp.toks, tok{pos: pos, tok: t, lit: lit, end: pos + token.Pos(len(l))})
	}
	e = sp.parseExpr(0)
	if sp.p != len(sp.toks) {
		panic(fmt.Sprintf("trailing tokens at %d: %v", sp.p, sp.toks[sp.p].tok))
	}
	return e, nil
}

func (s *sparser) peek() tok {
	if s.p < len(s.toks) {
		return s.toks[s.p]
	}
	return tok{tok: token.EOF}
}
func (s *sparser) peekN(n int) tok {
	if s.p+n < len(s.toks) {
		return s.toks[s.p+n]
	}
	return tok{tok: token.EOF}
}
func (s *sparser) next() tok { t := s.peek(); s.p++; return t }
func (s *sparser) expect(t token.Token) tok {
	x := s.next()
	if x.tok != t {
		panic(fmt.Sprintf("expected %v got %v(%s)", t, x.tok, x.lit))
	}
	return x
}

// binary operator at current position: returns op text, number of tokens, precedence
func (s *sparser) binop() (string, int, int) {
	t := s.peek()
	t1 := s.peekN(1)
	t2 := s.peekN(2)
	adj := func(a, b tok) bool { return a.end == b.pos }
	switch t.tok {
	case token.LEQ:
		if t1.tok == token.ASSIGN && t2.tok == token.GTR && adj(t, t1) && adj(t1, t2) {
			return "<==>", 3, 1
		}
		return "<=", 1, 5
	case token.EQL:
		if t1.tok == token.GTR && adj(t, t1) {
			return "==>", 2, 2
		}
		return "==", 1, 5
	case token.LOR:
		return "||", 1, 3
	case token.LAND:
		return "&&", 1, 4
	case token.NEQ, token.LSS, token.GTR, token.GEQ:
		return t.tok.String(), 1, 5
	case token.ADD, token.SUB, token.OR, token.XOR:
		return t.tok.String(), 1, 6
	case token.MUL, token.QUO, token.REM, token.SHL, token.SHR, token.AND, token.AND_NOT:
		return t.tok.String(), 1, 7
	}
	return "", 0, 0
}

func (s *sparser) parseExpr(minPrec int) SExpr {
	lhs := s.parseUnary()
	for {
		op, n, prec := s.binop()
		if n == 0 || prec < minPrec {
			return lhs
		}
		s.p += n
		var rhs SExpr
		if op == "==>" {
			rhs = s.parseExpr(prec) // right assoc
		} else {
			rhs = s.parseExpr(prec + 1)
		}
		lhs = &SBinary{Op: op, X: lhs, Y: rhs}
	}
}

func (s *sparser) parseUnary() SExpr {
	t := s.peek()
	switch t.tok {
	case token.NOT, token.SUB, token.XOR, token.ADD:
		s.next()
		return &SUnary{Op: t.tok.String(), X: s.parseUnary()}
	case token.MUL:
		s.next()
		return &SUnary{Op: "*", X: s.parseUnary()}
	case token.AND:
		s.next()
		return &SUnary{Op: "&", X: s.parseUnary()}
	}
	return s.parsePostfix(s.parsePrimary())
}

func (s *sparser) parsePrimary() SExpr {
	t := s.next()
	switch t.tok {
	case token.IDENT:
		if t.lit == "forall" || t.lit == "exists" {
			q := &SQuant{Forall: t.lit == "forall"}
			for {
				name := s.expect(token.IDENT).lit
				typ := ""
				for s.peek().tok != token.COMMA && !(s.peek().tok == token.COLON && s.peekN(1).tok == token.COLON) {
					x := s.next()
					if x.lit != "" {
						typ += x.lit
					} else {
						typ += x.tok.String()
					}
				}
				q.Vars = append(q.Vars, SVar{name, typ})
				if s.peek().tok == token.COMMA {
					s.next()
					continue
				}
				break
			}
			s.expect(token.COLON)
			s.expect(token.COLON)
			q.Body = s.parseExpr(0)
			return q
		}
		return &SIdent{t.lit}
	case token.INT, token.CHAR, token.STRING, token.FLOAT:
		return &SLit{t.tok, t.lit}
	case token.LPAREN:
		e := s.parseExpr(0)
		s.expect(token.RPAREN)
		return e
	case token.LBRACK:
		// slice type conversion such as []byte(x)
		s.expect(token.RBRACK)
		id := s.expect(token.IDENT)
		return &SIdent{"[]" + id.lit}
	}
	panic(fmt.Sprintf("unexpected token %v(%s)", t.tok, t.lit))
}

func (s *sparser) parsePostfix(e SExpr) SExpr {
	for {
		t := s.peek()
		switch t.tok {
		case token.PERIOD:
			s.next()
			id := s.expect(token.IDENT)
			e = &SSel{e, id.lit}
		case token.LPAREN:
			s.next()
			var args []SExpr
			for s.peek().tok != token.RPAREN {
				args = append(args, s.parseExpr(0))
				if s.peek().tok == token.COMMA {
					s.next()
				}
			}
			s.expect(token.RPAREN)
			e = &SCall{e, args}
		case token.LBRACK:
			s.next()
			var lo, hi SExpr
			if s.peek().tok != token.COLON {
				lo = s.parseExpr(0)
			}
			if s.peek().tok == token.COLON {
				s.next()
				if s.peek().tok != token.RBRACK {
					hi = s.parseExpr(0)
				}
				s.expect(token.RBRACK)
				e = &SSlice{e, lo, hi}
			} else {
				s.expect(token.RBRACK)
				e = &SIndex{e, lo}
			}
		default:
			return e
		}
	}
}

func showSpec(e SExpr) string {
	switch x := e.(type) {
	case *SIdent:
		return x.Name
	case *SLit:
		return x.Val
	case *SUnary:
		return x.Op + showSpec(x.X)
	case *SBinary:
		return "(" + showSpec(x.X) + " " + x.Op + " " + showSpec(x.Y) + ")"
	case *SCall:
		var as []string
		for _, a := range x.Args {
			as = append(as, showSpec(a))
		}
		return showSpec(x.Fun) + "(" + strings.Join(as, ", ") + ")"
	case *SIndex:
		return showSpec(x.X) + "[" + showSpec(x.I) + "]"
	case *SSlice:
		lo, hi := "", ""
		if x.Lo != nil {
			lo = showSpec(x.Lo)
		}
		if x.Hi != nil {
			hi = showSpec(x.Hi)
		}
		return showSpec(x.X) + "[" + lo + ":" + hi + "]"
	case *SSel:
		return showSpec(x.X) + "." + x.Name
	case *SQuant:
		k := "exists"
		if x.Forall {
			k = "forall"
		}
		var vs []string
		for _, v := range x.Vars {
			vs = append(vs, v.Name+" "+v.Type)
		}
		return "(" + k + " " + strings.Join(vs, ", ") + " :: " + showSpec(x.Body) + ")"
	}
	return "?"
}

// ---------------- contract blocks ----------------

type Clause struct {
	Text string
	E    SExpr
	Line int
}

type LoopSpec struct {
	Ordinal    int
	Invariants []Clause
	Decreases  *Clause
	Modifies   []Clause
}

type Contract struct {
	Key         string // ssa function key
	Header      string
	File        string
	Line        int
	Pkg         string // package path of the contract file
	Props       []string
	ParamNames  []string // receiver first
	ResNames    []string
	Requires    []Clause
	Ensures     []Clause
	Defines     []Clause
	GhostSets   [][2]Clause
	CallAsserts []CallAssert // callassert <callee> <expr>: obligation at every call of <callee> in this function
	MapAsserts  []CallAssert // mapassert <map local> <expr>: obligation at every update m[key] = value of that map
	Modifies    []Clause
	ModAll      bool // modifies *
	TrackClock  bool // opt trackclock: callees' inferred wall-clock effect is applied (C07)
	Loops       map[int]*LoopSpec
	Mode        string // "int" or "bv"
	Panics      string // "abort" | "violation"
	Trusted     bool   // body not verified (assumed contract)
	TrustNote   string
	Inline      bool
	NoOverflow  bool
	Extern      bool
	ExtKey      bool
	Pure        bool // no heap effect at all (modifies nothing) and result determined
	Lemma       bool
	IfaceMeth   string // for "interface pkg.I.M" contracts
	Opts        map[string]string
}

type SpecFunc struct {
	Name   string
	Params []SVar
	Ret    string
	Body   SExpr
	Text   string
	Pkg    string
}

type CallAssert struct {
	Callee string
	Cl     Clause
}

type ContractSet struct {
	Contracts map[string]*Contract
	Order     []*Contract
	Specs     map[string]*SpecFunc // key pkgpath.name and bare name
	NoEffect  []string             // prefixes of function keys with no modelled effect
}

func NewContractSet() *ContractSet {
	return &ContractSet{Contracts: map[string]*Contract{}, Specs: map[string]*SpecFunc{}}
}

var clauseKeywords = map[string]bool{
	"requires": true, "ensures": true, "defines": true, "ghostset": true, "callassert": true, "mapassert": true, "modifies": true, "invariant": true, "decreases": true,
	"panics": true, "mode": true, "trusted": true, "inline": true, "loop": true, "func": true,
	"extern": true, "extfunc": true, "spec": true, "property": true, "pure": true, "lemma": true, "noeffect": true,
	"opt": true, "interface": true,
}

// parseHeader parses "func (l *raftLog) commitTo(tocommit uint64) bool".
func parseHeader(hdr string) (recvType string, recvPtr bool, name string, params, results []string, err error) {
	src := "package p\n" + hdr + " {}\n"
	fset := token.NewFileSet()
	f, perr := parser.ParseFile(fset, "hdr.go", src, 0)
	if perr != nil {
		err = perr
		return
	}
	fd := f.Decls[0].(*ast.FuncDecl)
	name = fd.Name.Name
	if fd.Recv != nil && len(fd.Recv.List) > 0 {
		r := fd.Recv.List[0]
		rn := "_"
		if len(r.Names) > 0 {
			rn = r.Names[0].Name
		}
		params = append(params, rn)
		t := r.Type
		if st, ok := t.(*ast.StarExpr); ok {
			recvPtr = true
			t = st.X
		}
		switch tt := t.(type) {
		case *ast.Ident:
			recvType = tt.Name
		case *ast.SelectorExpr:
			recvType = tt.X.(*ast.Ident).Name + "." + tt.Sel.Name
		}
	}
	for _, p := range fd.Type.Params.List {
		if len(p.Names) == 0 {
			params = append(params, "_")
		}
		for _, n := range p.Names {
			params = append(params, n.Name)
		}
	}
	if fd.Type.Results != nil {
		for _, p := range fd.Type.Results.List {
			if len(p.Names) == 0 {
				results = append(results, "")
			}
			for _, n := range p.Names {
				results = append(results, n.Name)
			}
		}
	}
	return
}

func (cs *ContractSet) ParseFile(path string, pkgPath string) error {
	data, err := os.ReadFile(path)
	if err != nil {
		return err
	}
	lines := strings.Split(string(data), "\n")
	var cur *Contract
	var curLoop *LoopSpec
	var curProps []string
	type pend struct {
		kw   string
		text string
		line int
	}
	var p *pend
	flush := func() error {
		if p == nil {
			return nil
		}
		kw, text, line := p.kw, strings.TrimSpace(p.text), p.line
		p = nil
		mkClause := func() (Clause, error) {
			e, err := parseSpecExpr(text)
			if err != nil {
				return Clause{}, fmt.Errorf("%s:%d: %v", path, line, err)
			}
			return Clause{Text: text, E: e, Line: line}, nil
		}
		switch kw {
		case "property":
			curProps = strings.Fields(text)
			cur = nil
		case "noeffect":
			cs.NoEffect = append(cs.NoEffect, strings.Fields(text)...)
		case "spec":
			// name(params) ret = expr
			eq := strings.Index(text, "=")
			for eq >= 0 && (strings.HasPrefix(text[eq:], "==") || (eq > 0 && strings.ContainsAny(text[eq-1:eq], "<>!="))) {
				n := strings.Index(text[eq+2:], "=")
				if n < 0 {
					eq = -1
					break
				}
				eq = eq + 2 + n
			}
			hdr := strings.TrimSpace(text)
			body := ""
			if eq >= 0 {
				hdr = strings.TrimSpace(text[:eq])
				body = strings.TrimSpace(text[eq+1:])
			}
			_, _, name, params, _, err := parseHeader("func " + hdr)
			if err != nil {
				return fmt.Errorf("%s:%d: bad spec header %q: %v", path, line, hdr, err)
			}
			// param types
			src := "package p\nfunc " + hdr + " {}\n"
			fset := token.NewFileSet()
			f, _ := parser.ParseFile(fset, "h.go", src, 0)
			fd := f.Decls[0].(*ast.FuncDecl)
			var svars []SVar
			i := 0
			for _, fl := range fd.Type.Params.List {
				ts := src[fl.Type.Pos()-1 : fl.Type.End()-1]
				for range fl.Names {
					svars = append(svars, SVar{params[i], ts})
					i++
				}
			}
			ret := ""
			if fd.Type.Results != nil && len(fd.Type.Results.List) > 0 {
				r := fd.Type.Results.List[0]
				ret = src[r.Type.Pos()-1 : r.Type.End()-1]
			}
			var e SExpr
			if body != "" {
				var err error
				e, err = parseSpecExpr(body)
				if err != nil {
					return fmt.Errorf("%s:%d: %v", path, line, err)
				}
			}
			sf := &SpecFunc{Name: name, Params: svars, Ret: ret, Body: e, Text: body, Pkg: pkgPath}
			cs.Specs[pkgPath+"."+name] = sf
			if _, dup := cs.Specs[name]; !dup {
				cs.Specs[name] = sf
			}
		case "func", "extern", "extfunc", "lemma", "interface":
			c := &Contract{File: path, Line: line, Pkg: pkgPath, Props: curProps, Loops: map[int]*LoopSpec{}, Mode: "int", Panics: "abort", Opts: map[string]string{}}
			hdr := text
			if kw == "extern" || kw == "interface" || kw == "extfunc" {
				// extern <key> func(params) results
				i := strings.Index(text, " func")
				if i < 0 {
					return fmt.Errorf("%s:%d: extern needs ' func(...)'", path, line)
				}
				c.Key = strings.TrimSpace(text[:i])
				hdr = "func x" + strings.TrimSpace(text[i+5:])
				c.Extern = kw != "extfunc"
				c.Trusted = kw != "extfunc"
				c.ExtKey = true
				if kw == "interface" {
					c.IfaceMeth = c.Key
				}
			} else {
				hdr = "func " + text
			}
			rt, rp, name, params, results, err := parseHeader(hdr)
			if err != nil {
				return fmt.Errorf("%s:%d: bad header %q: %v", path, line, hdr, err)
			}
			if !c.ExtKey {
				if rt != "" {
					if rp {
						c.Key = "(*" + pkgPath + "." + rt + ")." + name
					} else {
						c.Key = "(" + pkgPath + "." + rt + ")." + name
					}
				} else {
					c.Key = pkgPath + "." + name
				}
			}
			c.Header = text
			c.ParamNames = params
			c.ResNames = results
			c.Lemma = kw == "lemma"
			if _, dup := cs.Contracts[c.Key]; dup {
				return fmt.Errorf("%s:%d: duplicate contract for %s", path, line, c.Key)
			}
			cs.Contracts[c.Key] = c
			cs.Order = append(cs.Order, c)
			cur = c
			curLoop = nil
		default:
			if cur == nil {
				return fmt.Errorf("%s:%d: clause %q outside a func block", path, line, kw)
			}
			switch kw {
			case "requires":
				cl, err := mkClause()
				if err != nil {
					return err
				}
				cur.Requires = append(cur.Requires, cl)
			case "ensures":
				cl, err := mkClause()
				if err != nil {
					return err
				}
				cur.Ensures = append(cur.Ensures, cl)
			case "callassert":
				// callassert <callee> <expr>: checked at every call of <callee> (a local function value, a static
				// callee or an interface method of that name) in this function's own body; the expression is
				// evaluated in the caller's scope at the call (source locals by name, arg0.. = call arguments)
				parts := strings.SplitN(text, " ", 2)
				if len(parts) != 2 {
					return fmt.Errorf("%s:%d: callassert needs '<callee> <expr>'", path, line)
				}
				e, err := parseSpecExpr(strings.TrimSpace(parts[1]))
				if err != nil {
					return fmt.Errorf("%s:%d: %v", path, line, err)
				}
				cur.CallAsserts = append(cur.CallAsserts, CallAssert{Callee: parts[0], Cl: Clause{Text: strings.TrimSpace(parts[1]), E: e, Line: line}})
			case "mapassert":
				// mapassert <map local> <expr>: checked at every `m[key] = value` on the local map variable of that
				// name in this function's own body, in the state BEFORE the update (so m[key] is the old entry);
				// `mapkey` and `mapval` are the operands; the map may be a local or a field written as in the source (wb.cache).  Every such update also bumps ghost(mapupd, m) by one.
				parts := strings.SplitN(text, " ", 2)
				if len(parts) != 2 {
					return fmt.Errorf("%s:%d: mapassert needs '<map> <expr>'", path, line)
				}
				e, err := parseSpecExpr(strings.TrimSpace(parts[1]))
				if err != nil {
					return fmt.Errorf("%s:%d: %v", path, line, err)
				}
				cur.MapAsserts = append(cur.MapAsserts, CallAssert{Callee: parts[0], Cl: Clause{Text: strings.TrimSpace(parts[1]), E: e, Line: line}})
			case "ghostset":
				// ghostset <ghost location> := <expr>: specification-only state written by this function
				parts := strings.SplitN(text, ":=", 2)
				if len(parts) != 2 {
					return fmt.Errorf("%s:%d: ghostset needs ':='", path, line)
				}
				le, err := parseSpecExpr(strings.TrimSpace(parts[0]))
				if err != nil {
					return fmt.Errorf("%s:%d: %v", path, line, err)
				}
				re, err := parseSpecExpr(strings.TrimSpace(parts[1]))
				if err != nil {
					return fmt.Errorf("%s:%d: %v", path, line, err)
				}
				cur.GhostSets = append(cur.GhostSets, [2]Clause{{Text: strings.TrimSpace(parts[0]), E: le, Line: line}, {Text: strings.TrimSpace(parts[1]), E: re, Line: line}})
			case "defines":
				// definitional clause: introduces an uninterpreted spec function as "what this function returns";
				// assumed at call sites, not checked against the body (listed as an assumption)
				cl, err := mkClause()
				if err != nil {
					return err
				}
				cur.Defines = append(cur.Defines, cl)
			case "modifies":
				if text == "*" {
					if curLoop != nil {
						return fmt.Errorf("%s:%d: modifies * not allowed in loop", path, line)
					}
					cur.ModAll = true
					break
				}
				for _, part := range splitTop(text, ',') {
					e, err := parseSpecExpr(part)
					if err != nil {
						return fmt.Errorf("%s:%d: %v", path, line, err)
					}
					cl := Clause{Text: part, E: e, Line: line}
					if curLoop != nil {
						curLoop.Modifies = append(curLoop.Modifies, cl)
					} else {
						cur.Modifies = append(cur.Modifies, cl)
					}
				}
			case "invariant":
				if curLoop == nil {
					return fmt.Errorf("%s:%d: invariant outside loop", path, line)
				}
				cl, err := mkClause()
				if err != nil {
					return err
				}
				curLoop.Invariants = append(curLoop.Invariants, cl)
			case "decreases":
				if curLoop == nil {
					return fmt.Errorf("%s:%d: decreases outside loop", path, line)
				}
				cl, err := mkClause()
				if err != nil {
					return err
				}
				curLoop.Decreases = &cl
			case "loop":
				var n int
				fmt.Sscanf(text, "%d", &n)
				if n <= 0 {
					return fmt.Errorf("%s:%d: bad loop ordinal", path, line)
				}
				curLoop = &LoopSpec{Ordinal: n}
				cur.Loops[n] = curLoop
			case "panics":
				cur.Panics = text
			case "mode":
				cur.Mode = text
			case "trusted":
				if strings.HasPrefix(text, "nooverflow") {
					cur.NoOverflow = true
				} else {
					cur.Trusted = true
					cur.TrustNote = text
				}
			case "inline":
				cur.Inline = true
			case "pure":
				cur.Pure = true
			case "opt":
				kv := strings.SplitN(text, "=", 2)
				if len(kv) == 2 {
					cur.Opts[strings.TrimSpace(kv[0])] = strings.TrimSpace(kv[1])
				} else {
					cur.Opts[text] = "true"
				}
				if cur.Opts["trackclock"] != "" {
					cur.TrackClock = true
				}
			}
		}
		return nil
	}
	for i, l := range lines {
		t := strings.TrimSpace(l)
		if !strings.HasPrefix(t, "//@") {
			continue
		}
		t = strings.TrimSpace(t[3:])
		if t == "" {
			continue
		}
		// strip trailing comment " // ..."
		if j := strings.Index(t, " // "); j >= 0 {
			t = strings.TrimSpace(t[:j])
		}
		first := t
		rest := ""
		if j := strings.IndexAny(t, " \t"); j >= 0 {
			first, rest = t[:j], t[j+1:]
		}
		if clauseKeywords[first] {
			if err := flush(); err != nil {
				return err
			}
			p = &pend{kw: first, text: rest, line: i + 1}
		} else {
			if p == nil {
				return fmt.Errorf("%s:%d: continuation without clause", path, i+1)
			}
			p.text += " " + t
		}
	}
	return flush()
}

func splitTop(s string, sep byte) []string {
	var out []string
	depth := 0
	last := 0
	for i := 0; i < len(s); i++ {
		switch s[i] {
		case '(', '[':
			depth++
		case ')', ']':
			depth--
		default:
			if s[i] == sep && depth == 0 {
				out = append(out, strings.TrimSpace(s[last:i]))
				last = i + 1
			}
		}
	}
	out = append(out, strings.TrimSpace(s[last:]))
	return out
}
