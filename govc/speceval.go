package main

// Evaluation of contract expressions against a symbolic state.

import (
	"fmt"
	"go/ast"
	"go/constant"
	"go/token"
	"go/types"
	"math/big"
	"strconv"
	"strings"

	"golang.org/x/tools/go/ssa"
)

type TV struct {
	v Value
	t types.Type
}

type SpecEnv struct {
	atInstr    ssa.Instruction // call / map-update site of a callassert / mapassert (nil otherwise)
	x          *FnExec
	fr         *Frame
	vars       map[string]TV
	cur        *State
	old        *State
	c          *Contract
	pkgPath    string
	phis       map[*ssa.Phi]Value
	loop       *loopInfo
	inOld      bool
	depth      int
	payload    map[string]types.Type
	quantBound map[string]bool
	guard      *Term
}

var untypedInt = types.Typ[types.UntypedInt]

func (x *FnExec) specEnv(fr *Frame, cur, old *State, c *Contract) *SpecEnv {
	ev := &SpecEnv{x: x, fr: fr, vars: map[string]TV{}, cur: cur, old: old, c: c}
	if c != nil {
		ev.pkgPath = c.Pkg
	} else if fr.fn.Pkg != nil {
		ev.pkgPath = fr.fn.Pkg.Pkg.Path()
	}
	for k, v := range fr.env {
		ev.vars[k] = v
	}
	return ev
}

func (ev *SpecEnv) bindResults(c *Contract, rt *types.Tuple, res Value) {
	if rt.Len() == 0 {
		return
	}
	var vals []Value
	if rt.Len() == 1 {
		vals = []Value{res}
	} else {
		vals = res.(TupleV)
	}
	for i := 0; i < rt.Len(); i++ {
		tv := TV{vals[i], rt.At(i).Type()}
		ev.vars[fmt.Sprintf("result%d", i)] = tv
		if i < len(c.ResNames) && c.ResNames[i] != "" && c.ResNames[i] != "_" {
			ev.vars[c.ResNames[i]] = tv
		}
		if rt.Len() == 1 {
			ev.vars["result"] = tv
		}
	}
}

func (ev *SpecEnv) state() *State {
	if ev.inOld {
		return ev.old
	}
	return ev.cur
}

func (ev *SpecEnv) pkg() *types.Package {
	if sp := ev.x.E.spkg[ev.pkgPath]; sp != nil {
		return sp.Pkg
	}
	return nil
}

func (ev *SpecEnv) evalBool(e SExpr) *Term {
	tv := ev.eval(e)
	t, ok := tv.v.(*Term)
	if !ok || t.sort != SBool {
		unsupp("spec expression %s is not boolean", showSpec(e))
	}
	return t
}

func (ev *SpecEnv) evalInt(e SExpr) *Term {
	tv := ev.eval(e)
	t, ok := tv.v.(*Term)
	if !ok {
		unsupp("spec expression %s is not scalar", showSpec(e))
	}
	return ev.toRef(t, tv.t)
}

// toRef converts an integer term to the index sort (only matters in bv mode)
func (ev *SpecEnv) toRef(t *Term, typ types.Type) *Term {
	if !ev.x.bv || !t.sort.isBV() {
		return t
	}
	b := basicOf(typ)
	return ev.x.bvResize(t, t.sort.bvWidth(), 64, b == nil || !isUnsigned(b))
}

func (ev *SpecEnv) lookupType(name string) types.Type {
	if strings.HasPrefix(name, "[]") {
		et := ev.lookupType(name[2:])
		if et == nil {
			return nil
		}
		return types.NewSlice(et)
	}
	if strings.HasPrefix(name, "*") {
		et := ev.lookupType(name[1:])
		if et == nil {
			return nil
		}
		return types.NewPointer(et)
	}
	if i := strings.Index(name, "."); i >= 0 {
		if p := ev.importedPkg(name[:i]); p != nil {
			if tn, ok := p.Scope().Lookup(name[i+1:]).(*types.TypeName); ok {
				return tn.Type()
			}
		}
		return nil
	}
	if o := types.Universe.Lookup(name); o != nil {
		if tn, ok := o.(*types.TypeName); ok {
			return tn.Type()
		}
	}
	if p := ev.pkg(); p != nil {
		if tn, ok := p.Scope().Lookup(name).(*types.TypeName); ok {
			return tn.Type()
		}
	}
	return nil
}

func (ev *SpecEnv) importedPkg(name string) *types.Package {
	p := ev.pkg()
	if p == nil {
		return nil
	}
	if path, ok := ev.x.E.aliases[ev.pkgPath][name]; ok {
		for _, im := range p.Imports() {
			if im.Path() == path {
				return im
			}
		}
	}
	for _, im := range p.Imports() {
		if im.Name() == name {
			return im
		}
	}
	// also allow last path element of any loaded package
	for path, sp := range ev.x.E.spkg {
		if sp.Pkg.Name() == name && strings.HasPrefix(path, repoMod) {
			return sp.Pkg
		}
	}
	return nil
}

func (ev *SpecEnv) objValue(o types.Object) (TV, bool) {
	x := ev.x
	switch ob := o.(type) {
	case *types.Const:
		return TV{x.constTerm(ob.Val(), ob.Type()), ob.Type()}, true
	case *types.Var:
		if sp := x.E.spkg[ob.Pkg().Path()]; sp != nil {
			if g, ok := sp.Members[ob.Name()].(*ssa.Global); ok {
				return TV{x.loadGlobal(ev.state(), g), ob.Type()}, true
			}
		}
	case *types.Nil:
		return TV{x.refConst(0), types.Typ[types.UntypedNil]}, true
	}
	return TV{}, false
}

func (ev *SpecEnv) ident(name string) TV {
	x := ev.x
	if ev.loop != nil && ev.fr != nil {
		// loop-carried locals shadow parameters of the same name (as in the source)
		for _, in := range ev.loop.header.Instrs {
			phi, ok := in.(*ssa.Phi)
			if !ok {
				break
			}
			if phi.Comment == name {
				if _, bound := ev.quantBound[name]; !bound {
					return TV{ev.phis[phi], phi.Type()}
				}
			}
		}
	}
	if ev.loop != nil && ev.fr != nil && !ev.inOld {
		if _, bound := ev.quantBound[name]; !bound {
			// a parameter reassigned before the loop: the invariant means its current value
			if _, isParam := ev.fr.env[name]; isParam {
				if tv, ok := ev.reassigned(name); ok {
					return tv
				}
			}
		}
	}
	if tv, ok := ev.vars[name]; ok {
		return tv
	}
	switch name {
	case "true":
		return TV{x.tc.True(), types.Typ[types.Bool]}
	case "false":
		return TV{x.tc.False(), types.Typ[types.Bool]}
	case "nil":
		return TV{x.refConst(0), types.Typ[types.UntypedNil]}
	}
	if ev.fr != nil {
		if tv, ok := ev.local(name); ok {
			return tv
		}
	}
	if p := ev.pkg(); p != nil {
		if o := p.Scope().Lookup(name); o != nil {
			if tv, ok := ev.objValue(o); ok {
				return tv
			}
		}
	}
	unsupp("spec: unknown identifier %q (contract %s)", name, ev.cKey())
	return TV{}
}

// reassigned: latest non-parameter SSA definition of a source variable that dominates the loop header.
func (ev *SpecEnv) reassigned(name string) (TV, bool) {
	fr := ev.fr
	var best ssa.Value
	for _, v := range fr.debug[name] {
		if _, isParam := v.(*ssa.Parameter); isParam {
			continue
		}
		if _, ok := fr.vals[v]; !ok {
			continue
		}
		if in, ok := v.(ssa.Instruction); ok {
			if !in.Block().Dominates(ev.loop.header) || in.Block() == ev.loop.header {
				continue
			}
		}
		best = v
	}
	if best == nil {
		return TV{}, false
	}
	return TV{fr.val(best), best.Type()}, true
}

func (ev *SpecEnv) cKey() string {
	if ev.c != nil {
		return ev.c.Key
	}
	return "?"
}

// local resolves a source-level local variable name for loop invariants.
func (ev *SpecEnv) local(name string) (TV, bool) {
	fr := ev.fr
	x := ev.x
	if ev.loop != nil {
		for _, in := range ev.loop.header.Instrs {
			phi, ok := in.(*ssa.Phi)
			if !ok {
				break
			}
			if phi.Comment == name {
				return TV{ev.phis[phi], phi.Type()}, true
			}
			if name == "iter" && phi.Comment == "rangeindex" {
				one := x.bigConst(big.NewInt(1), phi.Type())
				r, _ := x.arith(token.ADD, ev.phis[phi].(*Term), one, phi.Type(), true)
				return TV{r, phi.Type()}, true
			}
		}
	}
	// named alloc (variable living in memory)
	for _, b := range fr.fn.Blocks {
		for _, in := range b.Instrs {
			if a, ok := in.(*ssa.Alloc); ok && a.Comment == name {
				if pv, ok := fr.vals[a]; ok {
					return TV{x.load(ev.state(), x.ptrPlace(pv, a.Type())), deref(a.Type())}, true
				}
			}
		}
	}
	// at a call / map-update site: the reaching definition of the source variable at that instruction (latest DebugRef
	// or phi of that name in the block before the instruction, else up the dominator chain) - never a value assigned in a
	// branch that does not dominate the site
	if ev.atInstr != nil && ev.loop == nil {
		if rv := reachingDef(name, ev.atInstr); rv != nil {
			if _, ok := fr.vals[rv]; ok {
				return TV{fr.val(rv), rv.Type()}, true
			}
			if _, isc := rv.(*ssa.Const); isc {
				return TV{fr.val(rv), rv.Type()}, true
			}
		}
		for _, p := range fr.fn.Params {
			if p.Name() == name {
				if _, ok := fr.vals[p]; ok {
					return TV{fr.val(p), p.Type()}, true
				}
			}
		}
	}
	// debug-ref'ed SSA value whose definition dominates the loop header (or any, outside loops)
	var best ssa.Value
	for _, v := range fr.debug[name] {
		if _, ok := fr.vals[v]; !ok {
			if _, isc := v.(*ssa.Const); !isc {
				continue
			}
		}
		if ev.loop != nil {
			if in, ok := v.(ssa.Instruction); ok {
				if !in.Block().Dominates(ev.loop.header) || in.Block() == ev.loop.header {
					continue
				}
			}
		}
		best = v
	}
	if best != nil {
		return TV{fr.val(best), best.Type()}, true
	}
	return TV{}, false
}

func (ev *SpecEnv) eval(e SExpr) TV {
	x := ev.x
	tc := x.tc
	switch n := e.(type) {
	case *SIdent:
		return ev.ident(n.Name)
	case *SLit:
		switch n.Kind {
		case token.INT:
			v, ok := new(big.Int).SetString(n.Val, 0)
			if !ok {
				unsupp("bad int literal %s", n.Val)
			}
			return TV{x.bigConst(v, untypedInt), untypedInt}
		case token.CHAR:
			s, err := strconv.Unquote(n.Val)
			if err != nil || len(s) == 0 {
				unsupp("bad char literal %s", n.Val)
			}
			r := []rune(s)[0]
			return TV{x.bigConst(big.NewInt(int64(r)), untypedInt), untypedInt}
		case token.STRING:
			s, _ := strconv.Unquote(n.Val)
			return TV{x.strConst(s), types.Typ[types.String]}
		}
		unsupp("literal %s", n.Val)
	case *SUnary:
		switch n.Op {
		case "!":
			return TV{tc.Not(ev.evalBool(n.X)), types.Typ[types.Bool]}
		case "-":
			a := ev.eval(n.X)
			if x.bv {
				at := a.v.(*Term)
				return TV{tc.App("bvneg", at.sort, at), a.t}
			}
			return TV{tc.Neg(a.v.(*Term)), a.t}
		case "*":
			a := ev.eval(n.X)
			p := x.ptrPlace(a.v, a.t)
			return TV{x.load(ev.state(), p), deref(a.t)}
		case "^":
			a := ev.eval(n.X)
			at := a.v.(*Term)
			if x.bv {
				return TV{tc.App("bvnot", at.sort, at), a.t}
			}
		case "&":
			// address of a field / element: an interior pointer
			pl := ev.evalPlace(n.X)
			if pl == nil {
				unsupp("spec: cannot take the address of %s", showSpec(n.X))
			}
			var t types.Type
			if pl.kind == pkLocal {
				unsupp("spec: address of local")
			}
			_, t, _ = x.placeKey(pl)
			return TV{pl, types.NewPointer(t)}
		}
		unsupp("spec unary %s", n.Op)
	case *SBinary:
		return ev.binary(n)
	case *SQuant:
		save := map[string]TV{}
		var vars []*Term
		var guards []*Term
		for _, v := range n.Vars {
			t := ev.lookupType(v.Type)
			if t == nil {
				unsupp("spec: unknown type %q in quantifier", v.Type)
			}
			s := x.scalarSort(t)
			if s == "" {
				unsupp("quantifier over non-scalar type %s", t)
			}
			bv := tc.BVar(v.Name, s)
			if old, ok := ev.vars[v.Name]; ok {
				save[v.Name] = old
			}
			if ev.quantBound == nil {
				ev.quantBound = map[string]bool{}
			}
			ev.quantBound[v.Name] = true
			ev.vars[v.Name] = TV{bv, t}
			vars = append(vars, bv)
			if b := basicOf(t); b != nil && b.Info()&types.IsInteger != 0 && !x.bv && b.Kind() != types.Int {
				lo, hi := intRange(b)
				guards = append(guards, tc.And(tc.Le(tc.BigInt(lo), bv), tc.Le(bv, tc.BigInt(hi))))
			}
		}
		body := ev.evalBool(n.Body)
		for _, v := range n.Vars {
			delete(ev.quantBound, v.Name)
			if old, ok := save[v.Name]; ok {
				ev.vars[v.Name] = old
			} else {
				delete(ev.vars, v.Name)
			}
		}
		if n.Forall {
			return TV{tc.Forall(vars, tc.Implies(tc.And(guards...), body)), types.Typ[types.Bool]}
		}
		return TV{tc.Exists(vars, tc.And(tc.And(guards...), body)), types.Typ[types.Bool]}
	case *SSel:
		// package-qualified identifier?
		if id, ok := n.X.(*SIdent); ok {
			if _, isVar := ev.vars[id.Name]; !isVar {
				if _, isLocal := ev.tryLocal(id.Name); !isLocal {
					if p := ev.importedPkg(id.Name); p != nil {
						if o := p.Scope().Lookup(n.Name); o != nil {
							if tv, ok := ev.objValue(o); ok {
								return tv
							}
						}
						unsupp("spec: %s.%s not a value", id.Name, n.Name)
					}
				}
			}
		}
		base := ev.eval(n.X)
		return ev.field(base, n.Name)
	case *SIndex:
		base := ev.eval(n.X)
		return ev.index(base, n.I)
	case *SSlice:
		base := ev.eval(n.X)
		sl, ok := base.v.(*SliceV)
		if !ok {
			unsupp("spec: slicing non-slice %s", showSpec(n.X))
		}
		lo := x.refConst(0)
		hi := sl.ln
		if n.Lo != nil {
			lo = ev.evalInt(n.Lo)
		}
		if n.Hi != nil {
			hi = ev.evalInt(n.Hi)
		}
		return TV{&SliceV{sl.arr, x.intAdd(sl.off, lo), x.intSub(hi, lo), x.intSub(sl.cp, lo)}, base.t}
	case *SCall:
		return ev.call(n)
	}
	unsupp("spec expression %T", e)
	return TV{}
}

func (ev *SpecEnv) tryLocal(name string) (TV, bool) {
	if ev.fr == nil {
		return TV{}, false
	}
	return ev.local(name)
}

func (ev *SpecEnv) field(base TV, name string) TV {
	x := ev.x
	t := base.t
	// pseudo fields of slices
	if sl, ok := base.v.(*SliceV); ok {
		switch name {
		case "arr":
			return TV{sl.arr, types.Typ[types.Int]}
		case "off":
			return TV{sl.off, types.Typ[types.Int]}
		}
	}
	if pt, ok := t.Underlying().(*types.Pointer); ok {
		st, ok := pt.Elem().Underlying().(*types.Struct)
		if !ok {
			unsupp("spec: field %s of pointer to non-struct", name)
		}
		path := fieldPath(st, name)
		if path == nil {
			unsupp("spec: no field %s in %s", name, pt.Elem())
		}
		p := x.ptrPlace(base.v, t)
		ft := types.Type(st)
		for _, idx := range path {
			p = p.extend(idx)
			ft = ft.Underlying().(*types.Struct).Field(idx).Type()
		}
		return TV{x.load(ev.state(), p), ft}
	}
	if st, ok := t.Underlying().(*types.Struct); ok {
		path := fieldPath(st, name)
		if path == nil {
			unsupp("spec: no field %s in %s", name, t)
		}
		v := base.v
		ft := types.Type(st)
		for _, idx := range path {
			v = v.(*StructV).fields[idx]
			ft = ft.Underlying().(*types.Struct).Field(idx).Type()
		}
		return TV{v, ft}
	}
	unsupp("spec: field %s of %s", name, t)
	return TV{}
}

// fieldPath finds a (possibly promoted, through embedded structs) field.
func fieldPath(st *types.Struct, name string) []int {
	if i := fieldIndex(st, name); i >= 0 {
		return []int{i}
	}
	for i := 0; i < st.NumFields(); i++ {
		f := st.Field(i)
		if !f.Embedded() {
			continue
		}
		if es, ok := f.Type().Underlying().(*types.Struct); ok {
			if sub := fieldPath(es, name); sub != nil {
				return append([]int{i}, sub...)
			}
		}
	}
	return nil
}

func fieldIndex(st *types.Struct, name string) int {
	for i := 0; i < st.NumFields(); i++ {
		if st.Field(i).Name() == name {
			return i
		}
	}
	return -1
}

func (ev *SpecEnv) index(base TV, ie SExpr) TV {
	x := ev.x
	tc := x.tc
	switch bt := base.t.Underlying().(type) {
	case *types.Slice:
		sl := base.v.(*SliceV)
		i := ev.evalInt(ie)
		p := &Place{kind: pkElem, arr: sl.arr, idx: x.intAdd(sl.off, i), elem: bt.Elem()}
		return TV{x.load(ev.state(), p), bt.Elem()}
	case *types.Basic:
		if bt.Info()&types.IsString != 0 {
			i := ev.evalInt(ie)
			return TV{x.strAt(base.v.(*Term), i), types.Typ[types.Uint8]}
		}
	case *types.Array:
		i := ev.evalInt(ie)
		r := tc.Select(base.v.(*ArrV).t, i)
		return TV{r, bt.Elem()}
	case *types.Pointer:
		if arr, ok := bt.Elem().Underlying().(*types.Array); ok {
			i := ev.evalInt(ie)
			if ref, ok := base.v.(*Term); ok {
				p := &Place{kind: pkElem, arr: ref, idx: i, elem: arr.Elem()}
				return TV{x.load(ev.state(), p), arr.Elem()}
			}
		}
	case *types.Map:
		k := ev.eval(ie)
		m := base.v.(*Term)
		return TV{x.mapValHeapRead(ev.state(), bt, m, x.asComparable(k.v).(*Term)), bt.Elem()}
	}
	unsupp("spec: index on %s", base.t)
	return TV{}
}

// ghostPlace: ghost(name, ref) is a ghost integer field `name` of the object / interface value `ref`.
func (ev *SpecEnv) ghostPlace(n *SCall) *Place {
	x := ev.x
	if len(n.Args) != 2 {
		unsupp("ghost(name, ref) takes two arguments")
	}
	id, ok := n.Args[0].(*SIdent)
	if !ok {
		unsupp("ghost: first argument must be a field name")
	}
	gt := x.ghostTypes[id.Name]
	if gt == nil {
		gt = types.NewNamed(types.NewTypeName(0, nil, "ghost_"+id.Name, nil), types.Typ[types.Int], nil)
		x.ghostTypes[id.Name] = gt
	}
	if w, isId := n.Args[1].(*SIdent); isId && w.Name == "_" {
		return &Place{kind: pkHeap, ref: nil, obj: gt}
	}
	r := ev.eval(n.Args[1])
	ref, ok := x.asComparable(r.v).(*Term)
	if !ok {
		unsupp("ghost: second argument must be a reference")
	}
	return &Place{kind: pkHeap, ref: ref, obj: gt}
}

func (ev *SpecEnv) ghostPlaceRef(n *SCall, ref *Term) *Place {
	p := ev.ghostPlace(n)
	if p.ref == nil {
		p.ref = ref
	}
	return p
}

// evalPlace evaluates an expression denoting a memory location (for modifies).
func (ev *SpecEnv) evalPlace(e SExpr) *Place {
	x := ev.x
	switch n := e.(type) {
	case *SCall:
		if id, ok := n.Fun.(*SIdent); ok && id.Name == "ghost" {
			return ev.ghostPlace(n)
		}
		return nil
	case *SSel:
		base := ev.eval(n.X)
		if pt, ok := base.t.Underlying().(*types.Pointer); ok {
			st, ok := pt.Elem().Underlying().(*types.Struct)
			if !ok {
				return nil
			}
			path := fieldPath(st, n.Name)
			if path == nil {
				unsupp("spec: no field %s in %s", n.Name, pt.Elem())
			}
			pl := x.ptrPlace(base.v, base.t)
			for _, idx := range path {
				pl = pl.extend(idx)
			}
			return pl
		}
		// field of a struct location
		if p := ev.evalPlace(n.X); p != nil {
			_, t, _ := x.placeKey(p)
			if st, ok := t.Underlying().(*types.Struct); ok {
				if idx := fieldIndex(st, n.Name); idx >= 0 {
					return p.extend(idx)
				}
			}
		}
		return nil
	case *SIndex:
		base := ev.eval(n.X)
		if st, ok := base.t.Underlying().(*types.Slice); ok {
			sl := base.v.(*SliceV)
			return &Place{kind: pkElem, arr: sl.arr, idx: x.intAdd(sl.off, ev.evalInt(n.I)), elem: st.Elem()}
		}
		return nil
	case *SUnary:
		if n.Op == "*" {
			a := ev.eval(n.X)
			return x.ptrPlace(a.v, a.t)
		}
	}
	return nil
}

func (ev *SpecEnv) coerce(a, b TV) (TV, TV) {
	x := ev.x
	if !x.bv {
		return a, b
	}
	at, aok := a.v.(*Term)
	bt, bok := b.v.(*Term)
	if !aok || !bok || !at.sort.isBV() || !bt.sort.isBV() {
		return a, b
	}
	if at.sort == bt.sort {
		return a, b
	}
	// untyped constant adapts; otherwise widen the narrower (spec convenience)
	if isUntyped(a.t) {
		if c, ok := at.intConst(); ok {
			return TV{x.tc.BV(c, bt.sort.bvWidth()), b.t}, b
		}
	}
	if isUntyped(b.t) {
		if c, ok := bt.intConst(); ok {
			return a, TV{x.tc.BV(c, at.sort.bvWidth()), a.t}
		}
	}
	unsupp("spec (bv mode): operands of different width %s vs %s", a.t, b.t)
	return a, b
}

func (ev *SpecEnv) binary(n *SBinary) TV {
	x := ev.x
	tc := x.tc
	boolT := types.Typ[types.Bool]
	switch n.Op {
	case "&&":
		return TV{tc.And(ev.evalBool(n.X), ev.evalBool(n.Y)), boolT}
	case "||":
		return TV{tc.Or(ev.evalBool(n.X), ev.evalBool(n.Y)), boolT}
	case "==>":
		return TV{tc.Implies(ev.evalBool(n.X), ev.evalBool(n.Y)), boolT}
	case "<==>":
		return TV{tc.Eq(ev.evalBool(n.X), ev.evalBool(n.Y)), boolT}
	}
	a, b := ev.eval(n.X), ev.eval(n.Y)
	a, b = ev.coerce(a, b)
	rt := a.t
	if isUntyped(rt) {
		rt = b.t
	}
	switch n.Op {
	case "==", "!=":
		var eq *Term
		if bt := basicOf(rt); bt != nil && bt.Info()&types.IsString != 0 {
			eq = x.strEq(a.v.(*Term), b.v.(*Term))
		} else if sa, ok := a.v.(*SliceV); ok {
			if _, isNil := b.t.(*types.Basic); isNil {
				eq = tc.Eq(sa.arr, x.refConst(0))
			} else {
				eq = x.eqVal(a.v, b.v)
			}
		} else if sb, ok := b.v.(*SliceV); ok {
			eq = tc.Eq(sb.arr, x.refConst(0))
		} else {
			eq = x.eqVal(x.asComparable(a.v), x.asComparable(b.v))
		}
		if n.Op == "!=" {
			eq = tc.Not(eq)
		}
		return TV{eq, boolT}
	case "<", "<=", ">", ">=":
		op := map[string]token.Token{"<": token.LSS, "<=": token.LEQ, ">": token.GTR, ">=": token.GEQ}[n.Op]
		return TV{x.compare(op, a.v.(*Term), b.v.(*Term), rt), boolT}
	}
	op := map[string]token.Token{"+": token.ADD, "-": token.SUB, "*": token.MUL, "/": token.QUO, "%": token.REM,
		"&": token.AND, "|": token.OR, "^": token.XOR, "<<": token.SHL, ">>": token.SHR, "&^": token.AND_NOT}[n.Op]
	at, ok1 := a.v.(*Term)
	bt, ok2 := b.v.(*Term)
	if !ok1 || !ok2 {
		unsupp("spec arithmetic on non-scalars: %s", showSpec(n))
	}
	if isUntyped(rt) || basicOf(rt) == nil {
		rt = types.Typ[types.Int]
	}
	if n.Op == "<<" || n.Op == ">>" {
		rt = a.t
		if isUntyped(rt) {
			rt = types.Typ[types.Int]
		}
	}
	r, _ := x.arith(op, at, bt, rt, true)
	return TV{r, rt}
}

func (ev *SpecEnv) call(n *SCall) TV {
	x := ev.x
	tc := x.tc
	boolT := types.Typ[types.Bool]
	intT := types.Typ[types.Int]
	name := ""
	if id, ok := n.Fun.(*SIdent); ok {
		name = id.Name
	}
	if sel, ok := n.Fun.(*SSel); ok {
		if id, ok := sel.X.(*SIdent); ok {
			name = id.Name + "." + sel.Name
		}
	}
	switch name {
	case "old":
		save := ev.inOld
		ev.inOld = true
		r := ev.eval(n.Args[0])
		ev.inOld = save
		return r
	case "len", "cap":
		a := ev.eval(n.Args[0])
		switch v := a.v.(type) {
		case *SliceV:
			if name == "len" {
				return TV{v.ln, intT}
			}
			return TV{v.cp, intT}
		case *Term:
			switch ut := a.t.Underlying().(type) {
			case *types.Basic:
				return TV{x.strLen(v), intT}
			case *types.Map:
				return TV{x.mapLen(ev.state(), ut, v), intT}
			}
		case *ArrV:
			return TV{x.refConst(v.n), intT}
		}
		unsupp("spec: len of %s", a.t)
	case "fresh":
		a := ev.eval(n.Args[0])
		switch v := a.v.(type) {
		case *SliceV:
			return TV{tc.Or(x.intGe(v.arr, ev.old.alloc), tc.Eq(v.cp, x.refConst(0))), boolT}
		case *Term:
			return TV{x.intGe(v, ev.old.alloc), boolT}
		}
		unsupp("spec: fresh of %s", a.t)
	case "allocated":
		// the reference existed at function entry
		a := ev.eval(n.Args[0])
		switch v := a.v.(type) {
		case *SliceV:
			return TV{x.intLt(v.arr, ev.old.alloc), boolT}
		case *Term:
			return TV{x.intLt(v, ev.old.alloc), boolT}
		}
	case "visited", "nvisited":
		// visited(k): key k was already produced by the map iteration of the enclosing loop; nvisited(): how many were
		if ev.loop == nil || ev.fr == nil {
			unsupp("visited(k) outside a loop invariant")
		}
		var rng *ssa.Range
		for _, in := range ev.loop.header.Instrs {
			if nx, ok := in.(*ssa.Next); ok {
				if r, ok := nx.Iter.(*ssa.Range); ok {
					rng = r
				}
			}
		}
		if rng == nil {
			unsupp("visited(k): the loop is not a map range loop")
		}
		vis, ok := ev.state().getCell(rng)
		if !ok {
			unsupp("visited(k): iteration not started")
		}
		if name == "nvisited" {
			return TV{vis.(TupleV)[1].(*Term), intT}
		}
		k := ev.eval(n.Args[0])
		return TV{tc.Select(vis.(TupleV)[0].(*Term), x.asComparable(k.v).(*Term)), boolT}
	case "at":
		// at(s, p): element of slice s's backing array at absolute position p (p ranges over s.off .. s.off+len(s)-1)
		a := ev.eval(n.Args[0])
		sl, ok := a.v.(*SliceV)
		if !ok {
			unsupp("spec: at(s, p) needs a slice")
		}
		et := a.t.Underlying().(*types.Slice).Elem()
		pl := &Place{kind: pkElem, arr: sl.arr, idx: ev.evalInt(n.Args[1]), elem: et}
		return TV{x.load(ev.state(), pl), et}
	case "outer":
		// outer(p): pointer to the struct that directly contains the field p points to (p must be an interior pointer)
		a := ev.eval(n.Args[0])
		pl, ok := a.v.(*Place)
		if !ok || len(pl.path) == 0 || pl.kind != pkHeap {
			unsupp("spec: outer(p) needs an interior pointer into a heap object at this call site")
		}
		q := *pl
		q.path = append([]int{}, pl.path[:len(pl.path)-1]...)
		_, t, _ := x.placeKey(&q)
		if len(q.path) == 0 {
			return TV{q.ref, types.NewPointer(q.obj)}
		}
		return TV{&q, types.NewPointer(t)}
	case "box":
		// the interface value holding this (single-scalar) value, as Go's implicit conversion builds it
		a := ev.eval(n.Args[0])
		return TV{x.makeInterface(nil, ev.state(), a.v, a.t), types.NewInterfaceType(nil, nil)}
	case "ghost":
		p := ev.ghostPlace(n)
		return TV{x.load(ev.state(), p), p.obj}
	case "bytesEq":
		a, b := ev.eval(n.Args[0]), ev.eval(n.Args[1])
		return TV{ev.seqEq(a, b), boolT}
	case "disjoint":
		a, b := ev.eval(n.Args[0]).v.(*SliceV), ev.eval(n.Args[1]).v.(*SliceV)
		return TV{tc.Or(tc.Not(tc.Eq(a.arr, b.arr)), tc.Eq(a.cp, x.refConst(0)), tc.Eq(b.cp, x.refConst(0))), boolT}
	case "sameSlice":
		a, b := ev.eval(n.Args[0]).v.(*SliceV), ev.eval(n.Args[1]).v.(*SliceV)
		return TV{tc.And(tc.Eq(a.arr, b.arr), tc.Eq(a.off, b.off), tc.Eq(a.ln, b.ln)), boolT}
	case "lexLess", "lexLE":
		a, b := ev.eval(n.Args[0]), ev.eval(n.Args[1])
		return TV{ev.lex(a, b, name == "lexLE"), boolT}
	case "countTrue", "countTrueVisited":
		// number of keys mapped to true in a map[K]bool (countTrueVisited: among the keys the enclosing map-range loop has produced)
		var mexpr SExpr
		if len(n.Args) > 0 {
			mexpr = n.Args[0]
		}
		var rng *ssa.Range
		if name == "countTrueVisited" {
			if ev.loop == nil || ev.fr == nil {
				unsupp("countTrueVisited outside a loop invariant")
			}
			for _, in := range ev.loop.header.Instrs {
				if nx, ok := in.(*ssa.Next); ok {
					if r, ok := nx.Iter.(*ssa.Range); ok {
						rng = r
					}
				}
			}
			if rng == nil {
				unsupp("countTrueVisited: not a map range loop")
			}
		}
		var mv *Term
		var mt *types.Map
		if mexpr != nil {
			m := ev.eval(mexpr)
			mt = m.t.Underlying().(*types.Map)
			mv = m.v.(*Term)
		} else {
			mt = rng.X.Type().Underlying().(*types.Map)
			mv = ev.fr.val(rng.X).(*Term)
		}
		dom, val, _, ks, vs := x.mapHeaps(ev.state(), mt)
		rs := x.refSort()
		domArr := tc.Select(ev.state().getHeap(dom, SArr(rs, SArr(ks, SBool))), mv)
		valArr := tc.Select(ev.state().getHeap(val, SArr(rs, SArr(ks, vs))), mv)
		if name == "countTrueVisited" {
			vis, ok := ev.state().getCell(rng)
			if !ok {
				unsupp("countTrueVisited: iteration not started")
			}
			return TV{x.cntTrue(vis.(TupleV)[0].(*Term), valArr), intT}
		}
		return TV{x.cntTrue(domArr, valArr), intT}
	case "in":
		k := ev.eval(n.Args[0])
		m := ev.eval(n.Args[1])
		mt, ok := m.t.Underlying().(*types.Map)
		if !ok {
			unsupp("spec: in(k, m) needs a map")
		}
		dom, _, _, ks, _ := x.mapHeaps(ev.state(), mt)
		rs := x.refSort()
		mv := m.v.(*Term)
		return TV{tc.And(tc.Not(tc.Eq(mv, x.refConst(0))), tc.Select(tc.Select(ev.state().getHeap(dom, SArr(rs, SArr(ks, SBool))), mv), x.asComparable(k.v).(*Term))), boolT}
	case "ite":
		c := ev.evalBool(n.Args[0])
		a, b := ev.eval(n.Args[1]), ev.eval(n.Args[2])
		a, b = ev.coerce(a, b)
		t := a.t
		if isUntyped(t) {
			t = b.t
		}
		return TV{x.iteVal(c, a.v, b.v), t}
	case "min", "max":
		a, b := ev.eval(n.Args[0]), ev.eval(n.Args[1])
		a, b = ev.coerce(a, b)
		t := a.t
		if isUntyped(t) {
			t = b.t
		}
		le := x.compare(token.LEQ, a.v.(*Term), b.v.(*Term), t)
		if name == "min" {
			return TV{tc.Ite(le, a.v.(*Term), b.v.(*Term)), t}
		}
		return TV{tc.Ite(le, b.v.(*Term), a.v.(*Term)), t}
	case "typeIs":
		// typeIs(ifaceValue, T)
		a := ev.eval(n.Args[0])
		tn := showSpec(n.Args[1])
		t := ev.lookupType(tn)
		if t == nil {
			unsupp("spec: unknown type %s", tn)
		}
		id := a.v.(*Term)
		return TV{tc.And(tc.Not(tc.Eq(id, x.refConst(0))), tc.Eq(x.ifaceType(id), x.typeTag(t))), boolT}
	}
	// conversion?
	if t := ev.lookupType(strings.TrimSpace(name)); t != nil && len(n.Args) == 1 {
		a := ev.eval(n.Args[0])
		return ev.convert(a, t)
	}
	// spec function
	sf := x.E.cs.Specs[ev.pkgPath+"."+name]
	if sf == nil {
		sf = x.E.cs.Specs[name]
	}
	if sf != nil {
		if len(sf.Params) != len(n.Args) {
			unsupp("spec function %s: wrong argument count", name)
		}
		if ev.depth > 40 {
			unsupp("spec function recursion too deep: %s", name)
		}
		nv := map[string]TV{}
		for i, p := range sf.Params {
			a := ev.eval(n.Args[i])
			if pt := ev.lookupTypeIn(p.Type, sf.Pkg); pt != nil {
				if _, isSl := pt.Underlying().(*types.Slice); isSl {
					if b, ok := a.t.(*types.Basic); ok && b.Kind() == types.UntypedNil {
						a = TV{x.zeroVal(pt), pt}
					}
				}
				if isUntyped(a.t) || (x.bv && isIntType(a.t) && isIntType(pt) && !types.Identical(a.t.Underlying(), pt.Underlying())) {
					a = ev.convert(a, pt)
				} else if isIntType(pt) && isIntType(a.t) {
					a.t = pt
				}
			}
			nv[p.Name] = a
		}
		if sf.Body == nil {
			// uninterpreted function of the argument values (slices: by content)
			var args []*Term
			for _, p := range sf.Params {
				a := nv[p.Name]
				switch v := a.v.(type) {
				case *Term:
					if mt, isMap := a.t.Underlying().(*types.Map); isMap {
						// maps: by their key set
						dom, _, _, ks, _ := x.mapHeaps(ev.state(), mt)
						rs := x.refSort()
						args = append(args, tc.Select(ev.state().getHeap(dom, SArr(rs, SArr(ks, SBool))), v))
						break
					}
					args = append(args, v)
				case *SliceV:
					et := a.t.Underlying().(*types.Slice).Elem()
					es := x.scalarSort(et)
					if es == "" {
						unsupp("uninterpreted spec %s over slice of compound elements", name)
					}
					h := ev.state().getHeap("elem:"+typeKey(et), SArr(x.refSort(), SArr(x.refSort(), es)))
					args = append(args, tc.Select(h, v.arr), v.off, v.ln)
				default:
					unsupp("uninterpreted spec %s: argument kind %T", name, a.v)
				}
			}
			rt := ev.lookupTypeIn(sf.Ret, sf.Pkg)
			if rt == nil {
				unsupp("uninterpreted spec %s: unknown result type %q", name, sf.Ret)
			}
			r := tc.UF("spec:"+sf.Name, x.scalarSort(rt), args...)
			x.rangeFact(r, rt)
			return TV{r, rt}
		}
		sub := &SpecEnv{x: x, fr: nil, vars: nv, cur: ev.cur, old: ev.old, c: ev.c, pkgPath: sf.Pkg, inOld: ev.inOld, depth: ev.depth + 1}
		r := sub.eval(sf.Body)
		if sf.Ret != "" {
			if rt := sub.lookupType(sf.Ret); rt != nil && isIntType(rt) {
				if isUntyped(r.t) {
					r = sub.convert(r, rt)
				}
				r.t = rt
			}
		}
		return r
	}
	unsupp("spec: unknown function %q", name)
	return TV{}
}

func (ev *SpecEnv) lookupTypeIn(name, pkg string) types.Type {
	save := ev.pkgPath
	ev.pkgPath = pkg
	t := ev.lookupType(name)
	ev.pkgPath = save
	return t
}

func (ev *SpecEnv) convert(a TV, t types.Type) TV {
	x := ev.x
	if isIntType(t) {
		at, ok := a.v.(*Term)
		if !ok {
			unsupp("spec: conversion of non-scalar to %s", t)
		}
		if isUntyped(a.t) {
			if c, ok := at.intConst(); ok {
				return TV{x.bigConst(c, t), t}
			}
			return TV{at, t}
		}
		if a.t == nil || !isIntType(a.t) {
			return TV{at, t}
		}
		return TV{x.convertInt(at, a.t, t), t}
	}
	if b := basicOf(t); b != nil && b.Info()&types.IsString != 0 {
		if sl, ok := a.v.(*SliceV); ok {
			return TV{x.bytesToString(ev.state(), sl), t}
		}
	}
	return TV{a.v, t}
}

// seqEq: equal length and equal content (byte slices / strings)
func (ev *SpecEnv) seqEq(a, b TV) *Term {
	x := ev.x
	tc := x.tc
	la, ga := ev.seqView(a)
	lb, gb := ev.seqView(b)
	i := tc.BVar("i", x.refSort())
	return tc.And(tc.Eq(la, lb), tc.Forall([]*Term{i}, tc.Implies(tc.And(x.intLe(x.refConst(0), i), x.intLt(i, la)), tc.Eq(ga(i), gb(i)))))
}

func (ev *SpecEnv) seqView(a TV) (*Term, func(i *Term) *Term) {
	x := ev.x
	switch v := a.v.(type) {
	case *SliceV:
		et := a.t.Underlying().(*types.Slice).Elem()
		st := ev.state()
		return v.ln, func(i *Term) *Term {
			return x.load(st, &Place{kind: pkElem, arr: v.arr, idx: x.intAdd(v.off, i), elem: et}).(*Term)
		}
	case *Term:
		return x.strLen(v), func(i *Term) *Term { return x.strAt(v, i) }
	}
	unsupp("spec: sequence view of %s", a.t)
	return nil, nil
}

// lex: lexicographic order on byte sequences (the semantics of bytes.Compare)
func (ev *SpecEnv) lex(a, b TV, orEqual bool) *Term {
	x := ev.x
	tc := x.tc
	la, ga := ev.seqView(a)
	lb, gb := ev.seqView(b)
	z := x.refConst(0)
	k := tc.BVar("k", x.refSort())
	j := tc.BVar("j", x.refSort())
	prefixEq := func(upto *Term) *Term {
		return tc.Forall([]*Term{j}, tc.Implies(tc.And(x.intLe(z, j), x.intLt(j, upto)), tc.Eq(ga(j), gb(j))))
	}
	byteLt := func(p, q *Term) *Term {
		if p.sort.isBV() {
			return tc.App("bvult", SBool, p, q)
		}
		return tc.Lt(p, q)
	}
	// exists first differing position k with a[k] < b[k], or a is a proper prefix of b
	differs := tc.Exists([]*Term{k}, tc.And(x.intLe(z, k), x.intLt(k, la), x.intLt(k, lb), byteLt(ga(k), gb(k)), prefixEq(k)))
	properPrefix := tc.And(x.intLt(la, lb), prefixEq(la))
	lt := tc.Or(differs, properPrefix)
	if orEqual {
		return tc.Or(lt, tc.And(tc.Eq(la, lb), prefixEq(la)))
	}
	return lt
}

var _ = constant.MakeBool

// reachingDef: the SSA value bound to source variable `name` at instruction `at`.
func reachingDef(name string, at ssa.Instruction) ssa.Value {
	b := at.Block()
	start := -1
	for i, in := range b.Instrs {
		if in == at {
			start = i - 1
			break
		}
	}
	for blk := b; blk != nil; {
		for i := start; i >= 0; i-- {
			switch in := blk.Instrs[i].(type) {
			case *ssa.DebugRef:
				if !in.IsAddr {
					if id, ok := in.Expr.(*ast.Ident); ok && id.Name == name {
						return in.X
					}
				}
			case *ssa.Phi:
				if in.Comment == name {
					return in
				}
			}
		}
		blk = blk.Idom()
		if blk != nil {
			start = len(blk.Instrs) - 1
		}
	}
	return nil
}
