package main

// Symbolic values (flattened to SMT scalars on the Go side), heap model, states.

import (
	"fmt"
	"go/types"
	"strings"

	"golang.org/x/tools/go/ssa"
)

type Value interface{}

type SliceV struct{ arr, off, ln, cp *Term }
type StructV struct{ fields []Value }
type TupleV []Value
type ArrV struct {
	t *Term // (Array Int leaf)
	n int64
}
type FuncV struct {
	fn    *ssa.Function
	binds []Value
}
type IfaceV struct{ id *Term } // interface value: opaque id (0 = nil)

const (
	pkLocal = iota
	pkHeap
	pkElem
	pkGlobal
)

type Place struct {
	kind  int
	alloc *ssa.Alloc
	ref   *Term
	obj   types.Type // type of the heap object (pkHeap) / local (pkLocal) / global
	arr   *Term
	idx   *Term
	elem  types.Type // pkElem
	glob  *ssa.Global
	path  []int
	// index into an array-valued leaf at the end of path (arrays inside structs / local arrays by value)
	aidx *Term
}

func (p *Place) extend(i int) *Place {
	q := *p
	q.path = append(append([]int{}, p.path...), i)
	return &q
}

type unsupported struct{ msg string }

func unsupp(format string, a ...interface{}) {
	panic(unsupported{fmt.Sprintf(format, a...)})
}

func typeKey(t types.Type) string {
	if b, ok := t.(*types.Basic); ok {
		switch b.Kind() {
		case types.Uint8:
			return "uint8"
		case types.Int32:
			return "int32"
		}
	}
	s := types.TypeString(t, nil)
	if strings.Contains(s, "byte") {
		s = strings.ReplaceAll(s, "[]byte", "[]uint8")
	}
	return s
}

func deref(t types.Type) types.Type {
	if p, ok := t.Underlying().(*types.Pointer); ok {
		return p.Elem()
	}
	return t
}

func isErrorType(t types.Type) bool {
	return types.Identical(t, types.Universe.Lookup("error").Type())
}

// ---------- states ----------

type stParent struct {
	g *Term
	s *State
}

type State struct {
	x       *FnExec
	heap    map[string]*Term
	cells   map[ssa.Value]Value
	alloc   *Term
	base    *State
	parents []stParent
	epoch   int
	// ghostBase: for a root created by a contract-less call (havoc of everything), the state before the call.
	// Ghost fields are specification-only state written by contract clauses alone, so they survive such a call.
	ghostBase *State
}

func (x *FnExec) rootState() *State {
	x.epochs++
	s := &State{x: x, heap: map[string]*Term{}, cells: map[ssa.Value]Value{}, epoch: x.epochs}
	s.alloc = x.tc.Sym(fmt.Sprintf("ALLOCROOT.%d", s.epoch), x.refSort())
	x.addFact(x.intGt(s.alloc, x.refConst(0)))
	x.allocBound(s.alloc)
	return s
}

func (s *State) child() *State {
	return &State{x: s.x, heap: map[string]*Term{}, cells: map[ssa.Value]Value{}, alloc: s.alloc, base: s}
}

func (x *FnExec) mergeStates(ps []stParent) *State {
	if len(ps) == 1 {
		return ps[0].s.child()
	}
	s := &State{x: x, heap: map[string]*Term{}, cells: map[ssa.Value]Value{}, parents: ps}
	a := ps[len(ps)-1].s.alloc
	for i := len(ps) - 2; i >= 0; i-- {
		a = x.tc.Ite(ps[i].g, ps[i].s.alloc, a)
	}
	s.alloc = a
	return s
}

func (s *State) getHeap(key string, sort Sort) *Term {
	if t, ok := s.heap[key]; ok {
		return t
	}
	var t *Term
	switch {
	case s.base != nil:
		t = s.base.getHeap(key, sort)
	case len(s.parents) > 0:
		t = s.parents[len(s.parents)-1].s.getHeap(key, sort)
		for i := len(s.parents) - 2; i >= 0; i-- {
			t = s.x.tc.Ite(s.parents[i].g, s.parents[i].s.getHeap(key, sort), t)
		}
	case s.ghostBase != nil && strings.HasPrefix(key, "obj:ghost_"):
		t = s.ghostBase.getHeap(key, sort)
	default:
		t = s.x.tc.Sym(fmt.Sprintf("H%d|%s", s.epoch, key), sort)
	}
	s.heap[key] = t
	s.x.heapSorts[key] = sort
	return t
}

func (s *State) setHeap(key string, t *Term) {
	s.heap[key] = t
	s.x.heapSorts[key] = t.sort
	if s.x.writeLog != nil {
		s.x.writeLog[key] = true
	}
}

func (s *State) getCell(a ssa.Value) (Value, bool) {
	if v, ok := s.cells[a]; ok {
		return v, true
	}
	var v Value
	ok := false
	switch {
	case s.base != nil:
		v, ok = s.base.getCell(a)
	case len(s.parents) > 0:
		var vs []Value
		all := true
		for _, p := range s.parents {
			pv, pok := p.s.getCell(a)
			if !pok {
				all = false
				break
			}
			vs = append(vs, pv)
		}
		if all {
			v = vs[len(vs)-1]
			for i := len(vs) - 2; i >= 0; i-- {
				v = s.x.iteVal(s.parents[i].g, vs[i], v)
			}
			ok = true
		} else {
			// defined on some paths only: take any defined one (the variable is dead on the others)
			for _, p := range s.parents {
				if pv, pok := p.s.getCell(a); pok {
					v, ok = pv, true
					break
				}
			}
		}
	}
	if ok {
		s.cells[a] = v
	}
	return v, ok
}

func (s *State) setCell(a ssa.Value, v Value) {
	s.cells[a] = v
	if s.x.cellLog != nil {
		s.x.cellLog[a] = true
	}
}

// ---------- shapes ----------

func (x *FnExec) refSort() Sort {
	if x.bv {
		return SBV(64)
	}
	return SInt
}

func (x *FnExec) refConst(n int64) *Term { return x.intConstSort(n, x.refSort()) }

// scalarSort returns the SMT sort of a Go type represented by one scalar, or "" if compound.
func (x *FnExec) scalarSort(t types.Type) Sort {
	switch u := t.Underlying().(type) {
	case *types.Basic:
		switch {
		case u.Info()&types.IsBoolean != 0:
			return SBool
		case u.Info()&types.IsInteger != 0:
			if x.bv {
				return SBV(intWidth(u))
			}
			return SInt
		case u.Info()&types.IsString != 0:
			return x.refSort()
		case u.Kind() == types.UnsafePointer:
			return x.refSort()
		case u.Info()&types.IsFloat != 0:
			return "Real" // uninterpreted use only
		case u.Kind() == types.UntypedNil:
			return x.refSort()
		}
	case *types.Pointer, *types.Map, *types.Chan, *types.Interface, *types.Signature:
		return x.refSort()
	}
	return ""
}

type leaf struct {
	path string
	sort Sort
	typ  types.Type
}

// leaves enumerates the scalar leaves of a type (depth-first), for heap flattening.
func (x *FnExec) leaves(t types.Type, prefix string, out *[]leaf) {
	if s := x.scalarSort(t); s != "" {
		*out = append(*out, leaf{prefix, s, t})
		return
	}
	switch u := t.Underlying().(type) {
	case *types.Slice:
		rs := x.refSort()
		*out = append(*out, leaf{prefix + ".arr", rs, nil}, leaf{prefix + ".off", rs, nil}, leaf{prefix + ".len", rs, nil}, leaf{prefix + ".cap", rs, nil})
	case *types.Struct:
		for i := 0; i < u.NumFields(); i++ {
			x.leaves(u.Field(i).Type(), fmt.Sprintf("%s.%s", prefix, u.Field(i).Name()), out)
		}
	case *types.Array:
		es := x.scalarSort(u.Elem())
		if es == "" {
			unsupp("array of compound element %s inside aggregate", t)
		}
		*out = append(*out, leaf{prefix + ".[]", SArr(x.refSort(), es), t})
	default:
		unsupp("type %s not supported", t)
	}
}

func (x *FnExec) rangeFact(t *Term, typ types.Type) {
	if x.bv || t.bound || typ == nil {
		return
	}
	b, ok := typ.Underlying().(*types.Basic)
	if !ok {
		return
	}
	if b.Info()&types.IsInteger != 0 {
		if _, isc := t.intConst(); isc {
			return
		}
		if x.ranged[t.id] {
			return
		}
		x.ranged[t.id] = true
		lo, hi := intRange(b)
		x.addFact(x.tc.And(x.tc.Le(x.tc.BigInt(lo), t), x.tc.Le(t, x.tc.BigInt(hi))))
	}
	if b.Info()&types.IsString != 0 {
		if x.ranged[t.id] {
			return
		}
		x.ranged[t.id] = true
		x.addFact(x.tc.Ge(x.strLen(t), x.tc.Int(0)))
	}
}

func (x *FnExec) sliceFacts(s *SliceV) {
	if s.ln.bound || s.off.bound {
		return
	}
	if _, ok := s.ln.intConst(); ok {
		if _, ok := s.cp.intConst(); ok {
			if _, ok := s.off.intConst(); ok {
				return
			}
		}
	}
	k := s.ln.id*1000003 + s.cp.id*31 + s.off.id
	if x.rangedSl[k] {
		return
	}
	x.rangedSl[k] = true
	z := x.refConst(0)
	maxLen := x.intConstSort(1<<48, x.refSort())
	x.addFact(x.tc.And(x.intLe(z, s.off), x.intLe(z, s.ln), x.intLe(s.ln, s.cp), x.intLe(z, s.arr),
		x.intLe(s.cp, maxLen), x.intLe(s.off, maxLen),
		x.tc.Implies(x.tc.Eq(s.arr, z), x.tc.Eq(s.cp, z))))
}

// freshVal creates an arbitrary value of the given type (with type-range facts).
func (x *FnExec) freshVal(prefix string, t types.Type) Value {
	if s := x.scalarSort(t); s != "" {
		v := x.tc.Fresh(prefix, s)
		x.rangeFact(v, t)
		if _, ok := t.Underlying().(*types.Interface); ok {
			return v
		}
		return v
	}
	switch u := t.Underlying().(type) {
	case *types.Slice:
		rs := x.refSort()
		s := &SliceV{x.tc.Fresh(prefix+".arr", rs), x.tc.Fresh(prefix+".off", rs), x.tc.Fresh(prefix+".len", rs), x.tc.Fresh(prefix+".cap", rs)}
		x.sliceFacts(s)
		return s
	case *types.Struct:
		sv := &StructV{}
		for i := 0; i < u.NumFields(); i++ {
			sv.fields = append(sv.fields, x.freshVal(prefix+"."+u.Field(i).Name(), u.Field(i).Type()))
		}
		return sv
	case *types.Array:
		es := x.scalarSort(u.Elem())
		if es == "" {
			unsupp("array value of compound element %s", t)
		}
		return &ArrV{t: x.tc.Fresh(prefix, SArr(x.refSort(), es)), n: u.Len()}
	case *types.Tuple:
		var tv TupleV
		for i := 0; i < u.Len(); i++ {
			tv = append(tv, x.freshVal(fmt.Sprintf("%s.%d", prefix, i), u.At(i).Type()))
		}
		return tv
	}
	unsupp("freshVal: type %s", t)
	return nil
}

func (x *FnExec) zeroScalar(s Sort) *Term {
	switch {
	case s == SBool:
		return x.tc.False()
	case s == SInt:
		return x.tc.Int(0)
	case s.isBV():
		return x.intConstSort(0, s)
	case s == "Real":
		return x.tc.mk("const", "0.0", "Real")
	}
	panic("zeroScalar " + string(s))
}

func (x *FnExec) zeroVal(t types.Type) Value {
	if s := x.scalarSort(t); s != "" {
		if b, ok := t.Underlying().(*types.Basic); ok && b.Info()&types.IsString != 0 {
			return x.strConst("")
		}
		return x.zeroScalar(s)
	}
	switch u := t.Underlying().(type) {
	case *types.Slice:
		z := x.refConst(0)
		return &SliceV{z, z, z, z}
	case *types.Struct:
		sv := &StructV{}
		for i := 0; i < u.NumFields(); i++ {
			sv.fields = append(sv.fields, x.zeroVal(u.Field(i).Type()))
		}
		return sv
	case *types.Array:
		es := x.scalarSort(u.Elem())
		if es == "" {
			unsupp("array value of compound element %s", t)
		}
		return &ArrV{t: x.constArray(SArr(x.refSort(), es), x.zeroScalar(es)), n: u.Len()}
	}
	unsupp("zeroVal: type %s", t)
	return nil
}

func (x *FnExec) constArray(s Sort, v *Term) *Term {
	return x.tc.mk("(as const "+string(s)+")", "", s, v)
}

func (x *FnExec) iteVal(g *Term, a, b Value) Value {
	if a == nil {
		return b
	}
	if b == nil {
		return a
	}
	switch av := a.(type) {
	case *Term:
		bv, ok := b.(*Term)
		if !ok {
			unsupp("merge of pointer forms")
		}
		return x.tc.Ite(g, av, bv)
	case *SliceV:
		bv := b.(*SliceV)
		return &SliceV{x.tc.Ite(g, av.arr, bv.arr), x.tc.Ite(g, av.off, bv.off), x.tc.Ite(g, av.ln, bv.ln), x.tc.Ite(g, av.cp, bv.cp)}
	case *StructV:
		bv := b.(*StructV)
		r := &StructV{}
		for i := range av.fields {
			r.fields = append(r.fields, x.iteVal(g, av.fields[i], bv.fields[i]))
		}
		return r
	case TupleV:
		bv := b.(TupleV)
		var r TupleV
		for i := range av {
			r = append(r, x.iteVal(g, av[i], bv[i]))
		}
		return r
	case *ArrV:
		bv := b.(*ArrV)
		return &ArrV{t: x.tc.Ite(g, av.t, bv.t), n: av.n}
	case *Place:
		bv, ok := b.(*Place)
		if !ok {
			unsupp("merge of place with non-place")
		}
		if av.kind != bv.kind || av.alloc != bv.alloc || av.glob != bv.glob || fmt.Sprint(av.path) != fmt.Sprint(bv.path) {
			unsupp("merge of different places")
		}
		r := *av
		if av.ref != nil {
			r.ref = x.tc.Ite(g, av.ref, bv.ref)
		}
		if av.arr != nil {
			r.arr = x.tc.Ite(g, av.arr, bv.arr)
			r.idx = x.tc.Ite(g, av.idx, bv.idx)
		}
		return &r
	case *FuncV:
		bv, ok := b.(*FuncV)
		if !ok || bv.fn != av.fn {
			unsupp("merge of different function values")
		}
		if len(av.binds) == 0 {
			return av
		}
		r := &FuncV{fn: av.fn}
		for i := range av.binds {
			r.binds = append(r.binds, x.iteVal(g, av.binds[i], bv.binds[i]))
		}
		return r
	}
	unsupp("iteVal on %T", a)
	return nil
}

// eqVal is structural equality of two values of (Go-comparable) type.
func (x *FnExec) eqVal(a, b Value) *Term {
	switch av := a.(type) {
	case *Term:
		bv, ok := b.(*Term)
		if !ok {
			unsupp("comparison of pointer forms")
		}
		return x.tc.Eq(av, bv)
	case *StructV:
		bv := b.(*StructV)
		var cs []*Term
		for i := range av.fields {
			cs = append(cs, x.eqVal(av.fields[i], bv.fields[i]))
		}
		return x.tc.And(cs...)
	case *ArrV:
		return x.tc.Eq(av.t, b.(*ArrV).t)
	case *SliceV:
		// only comparison with nil is legal Go
		bv := b.(*SliceV)
		return x.tc.And(x.tc.Eq(av.arr, bv.arr), x.tc.Eq(av.ln, bv.ln), x.tc.Eq(av.cp, bv.cp))
	}
	unsupp("eqVal on %T", a)
	return nil
}

// ---------- heap access ----------

func pathKey(t types.Type, path []int) (string, types.Type) {
	var sb strings.Builder
	for _, i := range path {
		st, ok := t.Underlying().(*types.Struct)
		if !ok {
			unsupp("field path through non-struct %s", t)
		}
		sb.WriteString("." + st.Field(i).Name())
		t = st.Field(i).Type()
	}
	return sb.String(), t
}

// heapKeyPrefix returns the heap-array key prefix and the accessor for a place (not for locals).
func (x *FnExec) placeKey(p *Place) (prefix string, t types.Type, elemHeap bool) {
	switch p.kind {
	case pkHeap:
		pk, ft := pathKey(p.obj, p.path)
		return "obj:" + typeKey(p.obj) + pk, ft, false
	case pkElem:
		pk, ft := pathKey(p.elem, p.path)
		return "elem:" + typeKey(p.elem) + pk, ft, true
	case pkGlobal:
		pk, ft := pathKey(p.obj, p.path)
		return "glob:" + p.glob.String() + pk, ft, false
	}
	panic("placeKey on local")
}

func (x *FnExec) heapSort(p *Place, leafSort Sort) Sort {
	rs := x.refSort()
	switch p.kind {
	case pkHeap:
		return SArr(rs, leafSort)
	case pkElem:
		return SArr(rs, SArr(rs, leafSort))
	}
	return leafSort // globals: plain symbol
}

func (x *FnExec) readLeaf(st *State, p *Place, key string, ls Sort) *Term {
	h := st.getHeap(key, x.heapSort(p, ls))
	switch p.kind {
	case pkHeap:
		return x.tc.Select(h, p.ref)
	case pkElem:
		return x.tc.Select(x.tc.Select(h, p.arr), p.idx)
	}
	return h
}

func (x *FnExec) writeLeaf(st *State, p *Place, key string, ls Sort, v *Term) {
	hs := x.heapSort(p, ls)
	switch p.kind {
	case pkHeap:
		st.setHeap(key, x.tc.Store(st.getHeap(key, hs), p.ref, v))
	case pkElem:
		h := st.getHeap(key, hs)
		st.setHeap(key, x.tc.Store(h, p.arr, x.tc.Store(x.tc.Select(h, p.arr), p.idx, v)))
	default:
		st.setHeap(key, v)
	}
}

func (x *FnExec) noteRefKey(prefix string, t types.Type) {
	switch t.Underlying().(type) {
	case *types.Pointer, *types.Map:
		x.refKeys[prefix] = true
	case *types.Slice:
		x.refKeys[prefix+".arr"] = true
	}
}

func (x *FnExec) loadTyped(st *State, p *Place, prefix string, t types.Type) Value {
	x.noteRefKey(prefix, t)
	if s := x.scalarSort(t); s != "" {
		v := x.readLeaf(st, p, prefix, s)
		x.rangeFact(v, t)
		x.refFact(st, v, t)
		switch t.Underlying().(type) {
		case *types.Pointer, *types.Map:
			x.entryRefFacts(p, prefix)
		}
		return v
	}
	switch u := t.Underlying().(type) {
	case *types.Slice:
		rs := x.refSort()
		s := &SliceV{x.readLeaf(st, p, prefix+".arr", rs), x.readLeaf(st, p, prefix+".off", rs), x.readLeaf(st, p, prefix+".len", rs), x.readLeaf(st, p, prefix+".cap", rs)}
		x.sliceFacts(s)
		x.refFact(st, s.arr, nil)
		x.entryRefFacts(p, prefix+".arr")
		return s
	case *types.Struct:
		sv := &StructV{}
		for i := 0; i < u.NumFields(); i++ {
			sv.fields = append(sv.fields, x.loadTyped(st, p, prefix+"."+u.Field(i).Name(), u.Field(i).Type()))
		}
		return sv
	case *types.Array:
		es := x.scalarSort(u.Elem())
		if es == "" {
			unsupp("array of compound element in aggregate: %s", t)
		}
		return &ArrV{t: x.readLeaf(st, p, prefix+".[]", SArr(x.refSort(), es)), n: u.Len()}
	}
	unsupp("load of type %s", t)
	return nil
}

func (x *FnExec) storeTyped(st *State, p *Place, prefix string, t types.Type, v Value) {
	x.noteRefKey(prefix, t)
	if s := x.scalarSort(t); s != "" {
		tv, ok := v.(*Term)
		if !ok {
			if iv, ok2 := v.(*IfaceV); ok2 {
				tv = iv.id
			} else if fv, ok2 := v.(*FuncV); ok2 {
				tv = x.funcId(fv)
			} else {
				unsupp("storing a non-scalar (%T, e.g. interior pointer) into the heap at %s", v, prefix)
			}
		}
		x.writeLeaf(st, p, prefix, s, tv)
		return
	}
	switch u := t.Underlying().(type) {
	case *types.Slice:
		sv := v.(*SliceV)
		rs := x.refSort()
		x.writeLeaf(st, p, prefix+".arr", rs, sv.arr)
		x.writeLeaf(st, p, prefix+".off", rs, sv.off)
		x.writeLeaf(st, p, prefix+".len", rs, sv.ln)
		x.writeLeaf(st, p, prefix+".cap", rs, sv.cp)
	case *types.Struct:
		sv := v.(*StructV)
		for i := 0; i < u.NumFields(); i++ {
			x.storeTyped(st, p, prefix+"."+u.Field(i).Name(), u.Field(i).Type(), sv.fields[i])
		}
	case *types.Array:
		es := x.scalarSort(u.Elem())
		x.writeLeaf(st, p, prefix+".[]", SArr(x.refSort(), es), v.(*ArrV).t)
	default:
		unsupp("store of type %s", t)
	}
}

// entryRefFacts: every reference stored in a heap component AT FUNCTION ENTRY denotes an object allocated before
// entry (so it is not fresh()).  Stated once per heap component, quantified over all objects / elements.
// Only under `opt entryrefs` (the quantified facts slow unrelated queries down).
func (x *FnExec) entryRefFacts(p *Place, key string) {
	if x.entry == nil || x.top == nil || x.top.Opts["entryrefs"] == "" || x.entryRefDone[key] || (p.kind != pkHeap && p.kind != pkElem) {
		return
	}
	hs, ok := x.heapSorts[key]
	if !ok {
		return
	}
	if x.entryRefDone == nil {
		x.entryRefDone = map[string]bool{}
	}
	x.entryRefDone[key] = true
	saved := x.writeLog
	x.writeLog = nil
	h := x.entry.getHeap(key, hs)
	x.writeLog = saved
	tc := x.tc
	r := tc.BVar("r", x.refSort())
	lim := x.entry.alloc
	switch p.kind {
	case pkHeap:
		if hs != SArr(x.refSort(), x.refSort()) {
			return
		}
		x.addFact(tc.Forall([]*Term{r}, tc.And(x.intLe(x.refConst(0), tc.Select(h, r)), x.intLt(tc.Select(h, r), lim))))
	case pkElem:
		if hs != SArr(x.refSort(), SArr(x.refSort(), x.refSort())) {
			return
		}
		i := tc.BVar("i", x.refSort())
		x.addFact(tc.Forall([]*Term{r, i}, tc.And(x.intLe(x.refConst(0), tc.Select(tc.Select(h, r), i)), x.intLt(tc.Select(tc.Select(h, r), i), lim))))
	}
}

// refFact: a reference read from memory or received as input denotes an object that already exists.
func (x *FnExec) refFact(st *State, v *Term, t types.Type) {
	if v.bound {
		return
	}
	if t != nil {
		switch t.Underlying().(type) {
		case *types.Pointer, *types.Map:
		default:
			return
		}
	}
	if _, ok := v.intConst(); ok {
		return
	}
	k := v.id*7919 + st.alloc.id
	if x.rangedSl[k] {
		return
	}
	x.rangedSl[k] = true
	x.addFact(x.tc.And(x.intLe(x.refConst(0), v), x.intLt(v, st.alloc)))
}

func subValue(v Value, t types.Type, path []int) (Value, types.Type) {
	for _, i := range path {
		sv, ok := v.(*StructV)
		if !ok {
			unsupp("path into non-struct value")
		}
		v = sv.fields[i]
		t = t.Underlying().(*types.Struct).Field(i).Type()
	}
	return v, t
}

func setSubValue(v Value, path []int, nv Value) Value {
	if len(path) == 0 {
		return nv
	}
	sv := v.(*StructV)
	r := &StructV{fields: append([]Value{}, sv.fields...)}
	r.fields[path[0]] = setSubValue(sv.fields[path[0]], path[1:], nv)
	return r
}

func (x *FnExec) load(st *State, p *Place) Value {
	switch p.kind {
	case pkLocal:
		cv, ok := st.getCell(p.alloc)
		if !ok {
			cv = x.zeroVal(p.obj)
		}
		v, t := subValue(cv, p.obj, p.path)
		if p.aidx != nil {
			av := v.(*ArrV)
			r := x.tc.Select(av.t, p.aidx)
			x.rangeFact(r, t.Underlying().(*types.Array).Elem())
			return r
		}
		return v
	default:
		prefix, t, _ := x.placeKey(p)
		if p.aidx != nil {
			av := x.loadTyped(st, p, prefix, t).(*ArrV)
			r := x.tc.Select(av.t, p.aidx)
			x.rangeFact(r, t.Underlying().(*types.Array).Elem())
			return r
		}
		return x.loadTyped(st, p, prefix, t)
	}
}

func (x *FnExec) store(st *State, p *Place, v Value) {
	switch p.kind {
	case pkLocal:
		cv, ok := st.getCell(p.alloc)
		if !ok {
			cv = x.zeroVal(p.obj)
		}
		if p.aidx != nil {
			old, _ := subValue(cv, p.obj, p.path)
			av := old.(*ArrV)
			v = &ArrV{t: x.tc.Store(av.t, p.aidx, v.(*Term)), n: av.n}
		}
		st.setCell(p.alloc, setSubValue(cv, p.path, v))
	default:
		prefix, t, _ := x.placeKey(p)
		if p.aidx != nil {
			av := x.loadTyped(st, p, prefix, t).(*ArrV)
			v = &ArrV{t: x.tc.Store(av.t, p.aidx, v.(*Term)), n: av.n}
		}
		x.storeTyped(st, p, prefix, t, v)
	}
}

// newRef allocates a fresh reference.
func (x *FnExec) newRef(st *State) *Term {
	r := st.alloc
	st.alloc = x.intAdd(st.alloc, x.refConst(1))
	x.allocBound(st.alloc)
	return r
}

// allocBound: in bv mode the allocation counter must not wrap (bounded address space)
func (x *FnExec) allocBound(a *Term) {
	if x.bv && !a.bound {
		x.addFact(x.tc.And(x.intLt(x.refConst(0), a), x.intLt(a, x.intConstSort(1<<60, x.refSort()))))
	}
}

// ptrPlace turns a pointer value of static type ptrT into a place.
func (x *FnExec) ptrPlace(v Value, ptrT types.Type) *Place {
	switch pv := v.(type) {
	case *Place:
		return pv
	case *Term:
		return &Place{kind: pkHeap, ref: pv, obj: deref(ptrT)}
	}
	unsupp("pointer value of kind %T", v)
	return nil
}

// funcId: function values stored in memory are opaque non-nil identifiers (calls through them use
// `funcval:<type>` contracts).
func (x *FnExec) funcId(fv *FuncV) *Term {
	var t *Term
	if len(fv.binds) == 0 {
		t = x.tc.Sym("fn:"+fv.fn.String(), x.refSort())
	} else {
		t = x.tc.Fresh("closure:"+fv.fn.Name(), x.refSort())
	}
	if !x.ranged[-t.id] {
		x.ranged[-t.id] = true
		x.addFact(x.tc.Not(x.tc.Eq(t, x.refConst(0))))
	}
	return t
}
