package main

// Integer semantics: int mode (SMT Int, explicit wrap for <=32 bit, overflow
// obligations for 64 bit) and bv mode (exact machine arithmetic).

import (
	"fmt"
	"go/constant"
	"go/token"
	"go/types"
	"math/big"
)

func intWidth(b *types.Basic) int {
	switch b.Kind() {
	case types.Int8, types.Uint8:
		return 8
	case types.Int16, types.Uint16:
		return 16
	case types.Int32, types.Uint32:
		return 32
	}
	return 64
}

func isUnsigned(b *types.Basic) bool { return b.Info()&types.IsUnsigned != 0 }

func intRange(b *types.Basic) (*big.Int, *big.Int) {
	w := uint(intWidth(b))
	if isUnsigned(b) {
		return big.NewInt(0), new(big.Int).Sub(new(big.Int).Lsh(big.NewInt(1), w), big.NewInt(1))
	}
	h := new(big.Int).Lsh(big.NewInt(1), w-1)
	return new(big.Int).Neg(h), new(big.Int).Sub(h, big.NewInt(1))
}

func basicOf(t types.Type) *types.Basic {
	if t == nil {
		return nil
	}
	b, _ := t.Underlying().(*types.Basic)
	return b
}

func isIntType(t types.Type) bool {
	b := basicOf(t)
	return b != nil && b.Info()&types.IsInteger != 0
}

func isUntyped(t types.Type) bool {
	b := basicOf(t)
	return b != nil && b.Info()&types.IsUntyped != 0
}

func (x *FnExec) intConstSort(n int64, s Sort) *Term {
	if s.isBV() {
		return x.tc.BV(big.NewInt(n), s.bvWidth())
	}
	return x.tc.Int(n)
}

func (x *FnExec) bigConst(n *big.Int, t types.Type) *Term {
	if x.bv {
		w := 64
		if b := basicOf(t); b != nil && b.Info()&types.IsInteger != 0 && !isUntyped(t) {
			w = intWidth(b)
		}
		return x.tc.BV(n, w)
	}
	return x.tc.BigInt(n)
}

// generic (sort-directed) helpers used for refs/len/cap arithmetic
func (x *FnExec) intAdd(a, b *Term) *Term {
	if a.sort.isBV() {
		return x.tc.App("bvadd", a.sort, a, b)
	}
	return x.tc.Add(a, b)
}
func (x *FnExec) intSub(a, b *Term) *Term {
	if a.sort.isBV() {
		return x.tc.App("bvsub", a.sort, a, b)
	}
	return x.tc.Sub(a, b)
}
func (x *FnExec) intLe(a, b *Term) *Term {
	if a.sort.isBV() {
		return x.tc.App("bvsle", SBool, a, b)
	}
	return x.tc.Le(a, b)
}
func (x *FnExec) intLt(a, b *Term) *Term {
	if a.sort.isBV() {
		return x.tc.App("bvslt", SBool, a, b)
	}
	return x.tc.Lt(a, b)
}
func (x *FnExec) intGt(a, b *Term) *Term { return x.intLt(b, a) }
func (x *FnExec) intGe(a, b *Term) *Term { return x.intLe(b, a) }

func pow2(n int) *big.Int { return new(big.Int).Lsh(big.NewInt(1), uint(n)) }

// wrap reduces a mathematical integer into the range of basic type b (int mode).
func (x *FnExec) wrap(v *Term, b *types.Basic) *Term {
	w := intWidth(b)
	m := x.tc.BigInt(pow2(w))
	if isUnsigned(b) {
		return x.tc.Mod(v, m)
	}
	h := x.tc.BigInt(pow2(w - 1))
	return x.tc.Sub(x.tc.Mod(x.tc.Add(v, h), m), h)
}

func (x *FnExec) inRange(v *Term, b *types.Basic) *Term {
	lo, hi := intRange(b)
	return x.tc.And(x.tc.Le(x.tc.BigInt(lo), v), x.tc.Le(v, x.tc.BigInt(hi)))
}

// arith computes a op b for Go integer type t.  In int mode `math` selects
// mathematical (spec) arithmetic; otherwise <=32-bit results wrap and 64-bit
// results yield an overflow side condition returned in ovf (nil if none).
func (x *FnExec) arith(op token.Token, a, b *Term, t types.Type, math bool) (res *Term, ovf *Term) {
	bt := basicOf(t)
	if bt == nil {
		unsupp("arithmetic on %s", t)
	}
	if a.sort == "Real" || b.sort == "Real" {
		unsupp("floating point arithmetic")
	}
	if x.bv {
		return x.arithBV(op, a, b, bt), nil
	}
	tc := x.tc
	var r *Term
	exact := false // result cannot leave range (no wrap needed)
	switch op {
	case token.ADD:
		r = tc.Add(a, b)
	case token.SUB:
		r = tc.Sub(a, b)
	case token.MUL:
		r = tc.Mul(a, b)
		_, c1 := a.intConst()
		_, c2 := b.intConst()
		if !c1 && !c2 && !math {
			// nonlinear: keep but solvers may struggle
		}
	case token.QUO:
		if _, isConst := b.intConst(); !isConst {
			// variable divisor: uninterpreted quotient with the bounds that matter (keeps the goals linear)
			r = tc.UF("iquo", SInt, a, b)
			if !r.bound {
				x.addFact(tc.Implies(tc.And(tc.Ge(a, tc.Int(0)), tc.Gt(b, tc.Int(0))), tc.And(tc.Ge(r, tc.Int(0)), tc.Le(r, a))))
			}
			exact = true
			break
		}
		if isUnsigned(bt) || isUntyped(t) && false {
			r = tc.Div(a, b)
		} else {
			r = x.truncDiv(a, b)
		}
		exact = isUnsigned(bt)
	case token.REM:
		if _, isConst := b.intConst(); !isConst {
			r = tc.UF("irem", SInt, a, b)
			if !r.bound {
				x.addFact(tc.Implies(tc.And(tc.Ge(a, tc.Int(0)), tc.Gt(b, tc.Int(0))), tc.And(tc.Ge(r, tc.Int(0)), tc.Lt(r, b))))
				x.addFact(tc.Implies(tc.And(tc.Ge(a, tc.Int(0)), tc.Gt(b, a)), tc.Eq(r, a)))
			}
			exact = true
			break
		}
		if isUnsigned(bt) {
			r = tc.Mod(a, b)
		} else {
			r = tc.Sub(a, tc.Mul(b, x.truncDiv(a, b)))
		}
		exact = true
	case token.AND:
		r = x.bitAndInt(a, b, bt)
		exact = true
	case token.OR, token.XOR, token.AND_NOT:
		r = x.bitOpInt(op, a, b, bt)
		exact = true
	case token.SHL:
		k, ok := b.intConst()
		if !ok {
			unsupp("variable shift in int mode (use mode bv)")
		}
		r = tc.Mul(a, tc.BigInt(pow2(int(k.Int64()))))
		if !math {
			// shifts discard bits by design: always wrap, never an overflow obligation
			return x.wrap(r, bt), nil
		}
	case token.SHR:
		k, ok := b.intConst()
		if !ok {
			unsupp("variable shift in int mode (use mode bv)")
		}
		r = tc.Div(a, tc.BigInt(pow2(int(k.Int64()))))
		exact = true
	default:
		unsupp("operator %s", op)
	}
	if math || exact || isUntyped(t) {
		return r, nil
	}
	if intWidth(bt) <= 32 {
		return x.wrap(r, bt), nil
	}
	if x.noOvf {
		return r, nil
	}
	return r, x.inRange(r, bt)
}

func (x *FnExec) truncDiv(a, b *Term) *Term {
	tc := x.tc
	if av, ok := a.intConst(); ok && av.Sign() >= 0 {
		return tc.Div(a, b)
	}
	return tc.Ite(tc.Ge(a, tc.Int(0)), tc.Div(a, b), tc.Neg(tc.Div(tc.Neg(a), b)))
}

func isMask(n *big.Int) (int, bool) {
	// n == 2^k - 1 ?
	m := new(big.Int).Add(n, big.NewInt(1))
	if m.Sign() > 0 && new(big.Int).And(m, n).Sign() == 0 {
		return m.BitLen() - 1, true
	}
	return 0, false
}

func (x *FnExec) bitAndInt(a, b *Term, bt *types.Basic) *Term {
	tc := x.tc
	if av, ok := a.intConst(); ok {
		if bv, ok := b.intConst(); ok {
			return tc.BigInt(new(big.Int).And(av, bv))
		}
		a, b = b, a
	}
	if bv, ok := b.intConst(); ok && bv.Sign() >= 0 {
		if k, ok := isMask(bv); ok {
			// a & (2^k-1) == a mod 2^k (also for negative a in two's complement)
			return tc.Mod(a, tc.BigInt(pow2(k)))
		}
		// single contiguous run of ones: ((a div 2^lo) mod 2^n) * 2^lo
		lo := int(bv.TrailingZeroBits())
		sh := new(big.Int).Rsh(bv, uint(lo))
		if n, ok := isMask(sh); ok {
			return tc.Mul(tc.Mod(tc.Div(a, tc.BigInt(pow2(lo))), tc.BigInt(pow2(n))), tc.BigInt(pow2(lo)))
		}
	}
	if bv, ok := b.intConst(); ok && bv.Sign() >= 0 {
		// general constant: sum of its runs of ones (few runs only)
		var runs [][2]int
		n := bv.BitLen()
		for i := 0; i < n; {
			if bv.Bit(i) == 0 {
				i++
				continue
			}
			j := i
			for j < n && bv.Bit(j) == 1 {
				j++
			}
			runs = append(runs, [2]int{i, j - i})
			i = j
		}
		if len(runs) <= 8 {
			r := tc.Int(0)
			for _, rn := range runs {
				r = tc.Add(r, tc.Mul(tc.Mod(tc.Div(a, tc.BigInt(pow2(rn[0]))), tc.BigInt(pow2(rn[1]))), tc.BigInt(pow2(rn[0]))))
			}
			return r
		}
	}
	if bv, ok := b.intConst(); ok && bv.Sign() < 0 {
		// a & c with c < 0: clears the bits of ^c (>= 0):  a & c == a - (a & ^c)  in two's complement
		nb := new(big.Int).Sub(new(big.Int).Neg(bv), big.NewInt(1))
		if nb.Sign() == 0 {
			return a
		}
		return tc.Sub(a, x.bitAndInt(a, tc.BigInt(nb), bt))
	}
	unsupp("bitwise & with non-constant operands in int mode (use mode bv)")
	return nil
}

func (x *FnExec) bitOpInt(op token.Token, a, b *Term, bt *types.Basic) *Term {
	av, ok1 := a.intConst()
	bv, ok2 := b.intConst()
	if ok1 && ok2 {
		switch op {
		case token.OR:
			return x.tc.BigInt(new(big.Int).Or(av, bv))
		case token.XOR:
			return x.tc.BigInt(new(big.Int).Xor(av, bv))
		case token.AND_NOT:
			return x.tc.BigInt(new(big.Int).AndNot(av, bv))
		}
	}
	// single-bit constant operand: exact arithmetic characterisation
	if ok1 && !ok2 && (op == token.OR || op == token.XOR) {
		a, b, av, bv, ok1, ok2 = b, a, bv, av, ok2, ok1
	}
	if ok2 && bv.Sign() > 0 && new(big.Int).And(bv, new(big.Int).Sub(bv, big.NewInt(1))).Sign() == 0 {
		tc := x.tc
		k := bv.BitLen() - 1
		p := tc.BigInt(pow2(k))
		// for signed a the two's complement bit k of a equals bit k of (a mod 2^width); floor div/mod give it directly
		bitSet := tc.Eq(tc.Mod(tc.Div(a, p), tc.Int(2)), tc.Int(1))
		w := intWidth(bt)
		top := k == w-1 && !isUnsigned(bt)
		plus, minus := tc.Add(a, p), tc.Sub(a, p)
		if top {
			// setting the sign bit of a signed value subtracts 2^k, clearing it adds 2^k
			plus, minus = tc.Sub(a, p), tc.Add(a, p)
		}
		switch op {
		case token.OR:
			return tc.Ite(bitSet, a, plus)
		case token.XOR:
			return tc.Ite(bitSet, minus, plus)
		case token.AND_NOT:
			return tc.Ite(bitSet, minus, a)
		}
	}
	if op == token.AND_NOT && ok2 && bv.Sign() >= 0 {
		// a &^ mask(k) = a - a mod 2^k
		if k, ok := isMask(bv); ok {
			return x.tc.Sub(a, x.tc.Mod(a, x.tc.BigInt(pow2(k))))
		}
	}
	unsupp("bitwise %s in int mode (use mode bv)", op)
	return nil
}

func (x *FnExec) arithBV(op token.Token, a, b *Term, bt *types.Basic) *Term {
	tc := x.tc
	s := a.sort
	if op == token.SHL || op == token.SHR {
		// shift count may have a different width
		if b.sort != s {
			b = x.bvResize(b, b.sort.bvWidth(), s.bvWidth(), false)
		}
	} else if a.sort != b.sort {
		panic(fmt.Sprintf("bv arith sort mismatch %s %s", a.sort, b.sort))
	}
	switch op {
	case token.ADD:
		return tc.App("bvadd", s, a, b)
	case token.SUB:
		return tc.App("bvsub", s, a, b)
	case token.MUL:
		return tc.App("bvmul", s, a, b)
	case token.QUO:
		if isUnsigned(bt) {
			return tc.App("bvudiv", s, a, b)
		}
		return tc.App("bvsdiv", s, a, b)
	case token.REM:
		if isUnsigned(bt) {
			return tc.App("bvurem", s, a, b)
		}
		return tc.App("bvsrem", s, a, b)
	case token.AND:
		return tc.App("bvand", s, a, b)
	case token.OR:
		return tc.App("bvor", s, a, b)
	case token.XOR:
		return tc.App("bvxor", s, a, b)
	case token.AND_NOT:
		return tc.App("bvand", s, a, tc.App("bvnot", s, b))
	case token.SHL:
		return tc.App("bvshl", s, a, b)
	case token.SHR:
		if isUnsigned(bt) {
			return tc.App("bvlshr", s, a, b)
		}
		return tc.App("bvashr", s, a, b)
	}
	unsupp("bv operator %s", op)
	return nil
}

func (x *FnExec) bvResize(v *Term, from, to int, signed bool) *Term {
	if from == to {
		return v
	}
	if to < from {
		return x.tc.App(fmt.Sprintf("(_ extract %d 0)", to-1), SBV(to), v)
	}
	if signed {
		return x.tc.App(fmt.Sprintf("(_ sign_extend %d)", to-from), SBV(to), v)
	}
	return x.tc.App(fmt.Sprintf("(_ zero_extend %d)", to-from), SBV(to), v)
}

func (x *FnExec) compare(op token.Token, a, b *Term, t types.Type) *Term {
	tc := x.tc
	if op == token.EQL {
		return tc.Eq(a, b)
	}
	if op == token.NEQ {
		return tc.Not(tc.Eq(a, b))
	}
	if a.sort.isBV() {
		bt := basicOf(t)
		uns := bt != nil && isUnsigned(bt)
		var o string
		switch op {
		case token.LSS:
			o = "bvslt"
		case token.LEQ:
			o = "bvsle"
		case token.GTR:
			o = "bvsgt"
		case token.GEQ:
			o = "bvsge"
		}
		if uns {
			o = "bvu" + o[3:]
		}
		return tc.App(o, SBool, a, b)
	}
	switch op {
	case token.LSS:
		return tc.Lt(a, b)
	case token.LEQ:
		return tc.Le(a, b)
	case token.GTR:
		return tc.Gt(a, b)
	case token.GEQ:
		return tc.Ge(a, b)
	}
	unsupp("comparison %s", op)
	return nil
}

// convertInt converts integer term v of type from to type to (Go conversion semantics).
func (x *FnExec) convertInt(v *Term, from, to types.Type) *Term {
	fb, tb := basicOf(from), basicOf(to)
	if fb == nil || tb == nil {
		unsupp("conversion %s -> %s", from, to)
	}
	if x.bv {
		fw := 64
		if !isUntyped(from) {
			fw = intWidth(fb)
		}
		return x.bvResize(v, v.sort.bvWidth(), intWidth(tb), !isUnsigned(fb) && fw > 0)
	}
	if isUntyped(from) {
		return v
	}
	flo, fhi := intRange(fb)
	tlo, thi := intRange(tb)
	if flo.Cmp(tlo) >= 0 && fhi.Cmp(thi) <= 0 {
		return v
	}
	if c, ok := v.intConst(); ok && c.Cmp(tlo) >= 0 && c.Cmp(thi) <= 0 {
		return v
	}
	return x.wrap(v, tb)
}

func (x *FnExec) constTerm(val constant.Value, t types.Type) Value {
	if val == nil {
		return x.zeroVal(t)
	}
	switch val.Kind() {
	case constant.Bool:
		return x.tc.Bool(constant.BoolVal(val))
	case constant.Int:
		if b := basicOf(t); b != nil && b.Info()&types.IsFloat != 0 {
			if val.ExactString() == "0" {
				return x.zeroScalar("Real")
			}
			return x.tc.Sym("float:"+sanitize(val.ExactString()), "Real")
		}
		n, _ := new(big.Int).SetString(val.ExactString(), 10)
		return x.bigConst(n, t)
	case constant.String:
		return x.strConst(constant.StringVal(val))
	case constant.Float:
		if b := basicOf(t); b != nil && b.Info()&types.IsInteger != 0 {
			f, _ := constant.Float64Val(val)
			return x.bigConst(big.NewInt(int64(f)), t)
		}
		// floats are opaque
		return x.tc.Sym("float:"+sanitize(val.ExactString()), "Real")
	}
	unsupp("constant kind %v", val.Kind())
	return nil
}

// ---------- strings (opaque ids with length/char functions) ----------

func (x *FnExec) strLen(s *Term) *Term { return x.tc.UF("strlen", x.refSort(), s) }
func (x *FnExec) strAt(s, i *Term) *Term {
	if x.bv {
		return x.tc.UF("strat", SBV(8), s, i)
	}
	return x.tc.UF("strat", SInt, s, i)
}

func (x *FnExec) strConst(s string) *Term {
	if t, ok := x.strConsts[s]; ok {
		return t
	}
	t := x.tc.Sym(fmt.Sprintf("str:%s:%x", sanitize(s), s), x.refSort())
	x.strConsts[s] = t
	x.addFact(x.tc.Eq(x.strLen(t), x.refConst(int64(len(s)))))
	if len(s) <= 48 {
		for i := 0; i < len(s); i++ {
			var c *Term
			if x.bv {
				c = x.tc.BV(big.NewInt(int64(s[i])), 8)
			} else {
				c = x.tc.Int(int64(s[i]))
			}
			x.addFact(x.tc.Eq(x.strAt(t, x.refConst(int64(i))), c))
		}
	}
	// distinct constants are distinct ids
	for o, ot := range x.strConsts {
		if o != s {
			x.addFact(x.tc.Not(x.tc.Eq(t, ot)))
		}
	}
	return t
}

// strEq is string equality; against a (short) constant, content equality implies id equality.
func (x *FnExec) strEq(a, b *Term) *Term {
	for s, ct := range x.strConsts {
		other := (*Term)(nil)
		if ct == a {
			other = b
		} else if ct == b {
			other = a
		}
		if other != nil && len(s) <= 48 && !other.bound {
			cs := []*Term{x.tc.Eq(x.strLen(other), x.refConst(int64(len(s))))}
			for i := 0; i < len(s); i++ {
				cs = append(cs, x.tc.Eq(x.strAt(other, x.refConst(int64(i))), x.strAt(ct, x.refConst(int64(i)))))
			}
			x.addFact(x.tc.Implies(x.tc.And(cs...), x.tc.Eq(other, ct)))
		}
	}
	return x.tc.Eq(a, b)
}
