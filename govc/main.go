package main

import (
	"fmt"
	"os"
	"strings"
)

func main() {
	if len(os.Args) < 2 {
		fmt.Fprintln(os.Stderr, "usage: govc stub|check ...")
		os.Exit(2)
	}
	switch os.Args[1] {
	case "stub":
		mf, err := prepareBuild("/repo", "/verif/build")
		if err != nil {
			fmt.Fprintln(os.Stderr, err)
			os.Exit(2)
		}
		fmt.Println(mf)
	case "ssa":
		e, err := loadEngine("/repo", "/verif/build/p_ssa", []string{"./..."})
		if err != nil {
			fmt.Fprintln(os.Stderr, err)
			os.Exit(2)
		}
		for k, f := range e.funcs {
			if strings.Contains(k, os.Args[2]) {
				f.WriteTo(os.Stdout)
			}
		}
	case "check":
		os.Exit(mainCheck(os.Args[2:]))
	case "replay":
		os.Exit(mainReplay(os.Args[2:]))
	default:
		fmt.Fprintln(os.Stderr, "unknown command")
		os.Exit(2)
	}
}
