package main

import (
	"fmt"
	"go/token"
	"go/types"
	"strings"

	"golang.org/x/tools/go/ssa"
)

var panicFuncs = []string{
	"(" + repoMod + "/raft.Logger).Panic",
	"(" + repoMod + "/raft.Logger).Fatal",
	"(*" + repoMod + "/common.LevelLogger).Panic",
	"(*" + repoMod + "/common.LevelLogger).Fatal",
	"(*" + repoMod + "/common.LevelLogger).ErrorDepth", // not a panic; placeholder never matches exactly
	"log.Panic", "log.Fatal", "os.Exit",
	"(*github.com/coreos/pkg/capnslog.PackageLogger).Panic",
	"(*github.com/coreos/pkg/capnslog.PackageLogger).Fatal",
}

var builtinNoEffect = []string{
	"(" + repoMod + "/raft.Logger).",
	"(*" + repoMod + "/common.LevelLogger).",
	"(*github.com/coreos/pkg/capnslog.PackageLogger).",
	"(*sync.Mutex).", "(*sync.RWMutex).", "(*sync.WaitGroup).", "(*sync.Once).",
	"fmt.Sprintf", "fmt.Sprint", "fmt.Errorf", "errors.New", "fmt.Printf", "fmt.Println",
	"(github.com/prometheus/client_golang/prometheus.", "(*github.com/prometheus/client_golang/prometheus.",
	"log.Printf", "log.Println",
	"time.Since", "time.Now", "(time.Time).", "(time.Duration).",
	"(*" + repoMod + "/slow.", repoMod + "/slow.",
	"(*" + repoMod + "/metric.", repoMod + "/metric.",
	"runtime.",
}

func hasAnyPrefix(s string, ps []string) bool {
	for _, p := range ps {
		if strings.HasPrefix(s, p) {
			return true
		}
	}
	return false
}

func (x *FnExec) calleeKey(cc *ssa.CallCommon) string {
	if cc.IsInvoke() {
		return "(" + typeKey(cc.Value.Type()) + ")." + cc.Method.Name()
	}
	if fn := cc.StaticCallee(); fn != nil {
		return fn.String()
	}
	return ""
}

func (x *FnExec) isPanicCall(key string) bool {
	if key == "" {
		return false
	}
	for _, p := range panicFuncs {
		if strings.HasPrefix(key, p) && !strings.Contains(p, "ErrorDepth") {
			return true
		}
	}
	return false
}

func (x *FnExec) isNoEffectKey(key string) bool {
	if key == "" {
		return false
	}
	return hasAnyPrefix(key, builtinNoEffect) || hasAnyPrefix(key, x.E.cs.NoEffect)
}

func (x *FnExec) isNoEffectCall(cc *ssa.CallCommon) bool {
	return x.isNoEffectKey(x.calleeKey(cc))
}

func (x *FnExec) resultType(cc *ssa.CallCommon) types.Type {
	sig := cc.Signature()
	switch sig.Results().Len() {
	case 0:
		return nil
	case 1:
		return sig.Results().At(0).Type()
	}
	return sig.Results()
}

func (x *FnExec) freshResult(st *State, cc *ssa.CallCommon, name string) Value {
	rt := x.resultType(cc)
	if rt == nil {
		return nil
	}
	v := x.freshVal("ret."+name, rt)
	x.inputFacts(st, v, rt)
	return v
}

func (x *FnExec) call(fr *Frame, cc *ssa.CallCommon, instr ssa.Value, st *State, g *Term) (Value, *Term) {
	tc := x.tc
	pos := token.NoPos
	if instr != nil {
		pos = instr.Pos()
	}
	if b, ok := cc.Value.(*ssa.Builtin); ok {
		return x.builtin(fr, b, cc, st, g, pos), g
	}
	key := x.calleeKey(cc)
	var args []Value
	if cc.IsInvoke() {
		args = append(args, fr.val(cc.Value))
	}
	var static []types.Type
	if cc.IsInvoke() {
		static = append(static, nil)
	}
	for _, a := range cc.Args {
		args = append(args, fr.val(a))
		if mi, ok := a.(*ssa.MakeInterface); ok {
			static = append(static, mi.X.Type())
		} else {
			static = append(static, nil)
		}
	}
	x.curStatic = static
	defer func() { x.curStatic = nil }()
	if fr.top && x.top != nil && len(x.top.CallAsserts) > 0 {
		x.callAsserts(fr, cc, instr, args, st, g, pos)
	}
	// inferred effect contract (effects.go): the callee may read the wall clock as data
	if x.top != nil && x.top.TrackClock {
		if yes, why := x.E.clockEffectOfCall(cc); yes && !(cc.StaticCallee() != nil && isObservabilitySink(cc.StaticCallee()) && (instr == nil || unusedResult(instr.(ssa.Instruction)))) {
			x.bumpGhostClock(st, g, why)
		}
	}
	if strings.HasPrefix(key, "sync/atomic.") {
		if r, ok := x.atomicIntrinsic(fr, key, cc, args, st, g); ok {
			return r, g
		}
	}
	if key == "sort.Sort" && len(static) == 1 && static[0] != nil {
		if r, ok := x.sortIntrinsic(fr, cc, args, static[0], st, g); ok {
			return r, g
		}
	}
	if x.isPanicCall(key) {
		if x.top.Panics == "violation" {
			x.oblige("NOPANIC", "call of "+shortKey(key)+" unreachable", g, tc.False(), pos)
		}
		return x.freshResult(st, cc, "panic"), tc.False()
	}
	if c := x.E.cs.Contracts[key]; c != nil {
		if c.Inline {
			fn := cc.StaticCallee()
			if fn == nil {
				unsupp("inline contract on non-static callee %s", key)
			}
			return x.inlineCall(fr, fn, c, args, nil, st, g)
		}
		return x.contractCall(c, cc.Signature(), key, args, st, g, pos), g
	}
	if x.isNoEffectKey(key) {
		r := x.freshResult(st, cc, sanitize(key))
		if key == "fmt.Errorf" || key == "errors.New" {
			x.addFact(tc.Not(tc.Eq(r.(*Term), x.refConst(0))))
		}
		return r, g
	}
	if fn := cc.StaticCallee(); fn != nil {
		if fn.Parent() != nil && fn.Blocks != nil {
			// closure literal called directly
			var binds []Value
			if mc, ok := cc.Value.(*ssa.MakeClosure); ok {
				for _, b := range mc.Bindings {
					binds = append(binds, fr.val(b))
				}
			}
			return x.inlineCall(fr, fn, x.E.cs.Contracts[fn.String()], args, binds, st, g)
		}
	} else if !cc.IsInvoke() {
		if fv, ok := fr.val(cc.Value).(*FuncV); ok && fv.fn.Blocks != nil {
			if c := x.E.cs.Contracts[fv.fn.String()]; c != nil && !c.Inline {
				return x.contractCall(c, cc.Signature(), fv.fn.String(), args, st, g, pos), g
			}
			return x.inlineCall(fr, fv.fn, x.E.cs.Contracts[fv.fn.String()], args, fv.binds, st, g)
		}
	}
	if !cc.IsInvoke() && cc.StaticCallee() == nil {
		fk := "funcval:" + typeKey(cc.Value.Type())
		if c := x.E.cs.Contracts[fk]; c != nil {
			return x.contractCall(c, cc.Signature(), fk, args, st, g, pos), g
		}
	}
	// unknown callee: everything modelled may change
	x.notes = append(x.notes, "call without contract havocs the heap: "+shortKey(key))
	x.havocAll(st)
	return x.freshResult(st, cc, sanitize(key)), g
}

// callAsserts: obligations attached to call sites of the function under verification (clause callassert).
func (x *FnExec) callAsserts(fr *Frame, cc *ssa.CallCommon, instr ssa.Value, args []Value, st *State, g *Term, pos token.Pos) {
	for _, ca := range x.top.CallAsserts {
		match := false
		if sc := cc.StaticCallee(); sc != nil && sc.Name() == ca.Callee {
			match = true
		}
		if cc.IsInvoke() && cc.Method.Name() == ca.Callee {
			match = true
		}
		if !match && !cc.IsInvoke() {
			for _, v := range fr.debug[ca.Callee] {
				if v == cc.Value {
					match = true
				}
			}
		}
		if !match {
			continue
		}
		ev := x.specEnv(fr, st, x.entry, x.top)
		if ii, ok := instr.(ssa.Instruction); ok {
			ev.atInstr = ii
		}
		var ats []types.Type
		if cc.IsInvoke() {
			ats = append(ats, cc.Value.Type())
		}
		for _, a := range cc.Args {
			ats = append(ats, a.Type())
		}
		for i, a := range args {
			if i < len(ats) {
				ev.vars[fmt.Sprintf("arg%d", i)] = TV{a, ats[i]}
			}
		}
		x.oblige("ASSERT", "at call of "+ca.Callee+": "+ca.Cl.Text, g, ev.evalBool(ca.Cl.E), pos)
	}
}

// bumpGhostClock: ghost(wallclock, nil) takes an arbitrary new value (the callee may read the clock as data).
func (x *FnExec) bumpGhostClock(st *State, g *Term, why string) {
	gt := x.ghostTypes["wallclock"]
	if gt == nil {
		gt = types.NewNamed(types.NewTypeName(0, nil, "ghost_wallclock", nil), types.Typ[types.Int], nil)
		x.ghostTypes["wallclock"] = gt
	}
	pl := &Place{kind: pkHeap, ref: x.refConst(0), obj: gt}
	x.store(st, pl, x.tc.Fresh("wallclock", SInt))
	note := "reads the wall clock as data: " + why
	for _, n := range x.notes {
		if n == note {
			return
		}
	}
	x.notes = append(x.notes, note)
}

func (x *FnExec) havocAll(st *State) {
	if x.writeLog != nil {
		x.writeLog["*"] = true
	}
	n := x.rootState()
	x.addFact(x.intLe(st.alloc, n.alloc))
	cells := map[ssa.Value]Value{}
	// local cells are not reachable by callees: keep them
	var collect func(s *State)
	seen := map[*State]bool{}
	var allocs []ssa.Value
	collect = func(s *State) {
		if s == nil || seen[s] {
			return
		}
		seen[s] = true
		for a := range s.cells {
			allocs = append(allocs, a)
		}
		collect(s.base)
		for _, p := range s.parents {
			collect(p.s)
		}
	}
	collect(st)
	for _, a := range allocs {
		if v, ok := st.getCell(a); ok {
			cells[a] = v
		}
	}
	frozen := &State{x: x, heap: st.heap, cells: st.cells, alloc: st.alloc, base: st.base, parents: st.parents, epoch: st.epoch, ghostBase: st.ghostBase}
	n.ghostBase = frozen
	st.heap = map[string]*Term{}
	st.base = n
	st.parents = nil
	st.cells = cells
	st.alloc = n.alloc
	st.ghostBase = nil
}

func (x *FnExec) inlineCall(fr *Frame, fn *ssa.Function, c *Contract, args []Value, binds []Value, st *State, g *Term) (Value, *Term) {
	if x.depth > 12 {
		unsupp("inline depth exceeded at %s", fn)
	}
	if fn.Blocks == nil {
		unsupp("cannot inline %s: no body", fn)
	}
	x.depth++
	defer func() { x.depth-- }()
	nf := x.newFrame(fn, c)
	nf.entry = fr.entry
	if len(args) != len(fn.Params) {
		unsupp("inline %s: argument count", fn)
	}
	for i, p := range fn.Params {
		nf.vals[p] = args[i]
		nf.env[p.Name()] = TV{args[i], p.Type()}
	}
	for i, fv := range fn.FreeVars {
		if i < len(binds) {
			nf.vals[fv] = binds[i]
		} else {
			unsupp("inline %s: missing binding", fn)
		}
	}
	// the callee works on a child of a frozen copy of the caller's state
	frozen := &State{x: x, heap: st.heap, cells: st.cells, alloc: st.alloc, base: st.base, parents: st.parents, epoch: st.epoch}
	body := frozen.child()
	rv, rst, rg := x.execBody(nf, body, g)
	if rst == nil {
		return nil, x.tc.False()
	}
	// splice resulting state back into st
	st.heap = map[string]*Term{}
	st.cells = map[ssa.Value]Value{}
	st.base = rst
	st.parents = nil
	st.alloc = rst.alloc
	return rv, rg
}

// contractCall: modular call against the callee's contract.
func (x *FnExec) contractCall(c *Contract, sig *types.Signature, key string, args []Value, st *State, g *Term, pos token.Pos) Value {
	tc := x.tc
	static := x.curStatic
	x.curStatic = nil
	if c.Trusted {
		x.trustedUsed[shortKey(c.Key)] = true
	}
	// `opt anymode`: the contract's clauses contain no integer arithmetic (references, booleans, ghost flags compared with
	// constants only), so they mean the same under both integer encodings
	if (c.Mode == "bv") != x.bv && !c.Extern && c.Opts["anymode"] == "" {
		if x.bv {
			unsupp("call from bv-mode function into int-mode contract %s", c.Key)
		}
		x.crossMode[shortKey(c.Key)] = true
	}
	env := map[string]TV{}
	var ptypes []types.Type
	if sig.Recv() != nil {
		ptypes = append(ptypes, sig.Recv().Type())
	}
	for i := 0; i < sig.Params().Len(); i++ {
		ptypes = append(ptypes, sig.Params().At(i).Type())
	}
	if len(ptypes) != len(args) {
		// invoke: receiver type is the interface
		if len(args) == len(ptypes)+1 {
			ptypes = append([]types.Type{types.NewInterfaceType(nil, nil)}, ptypes...)
		}
	}
	if len(c.ParamNames) != len(args) {
		unsupp("contract %s names %d parameters, call has %d arguments", c.Key, len(c.ParamNames), len(args))
	}
	for i, n := range c.ParamNames {
		env[n] = TV{args[i], ptypes[i]}
	}
	payload := map[string]types.Type{}
	for i, n := range c.ParamNames {
		if i < len(static) && static[i] != nil {
			payload[n] = static[i]
		}
	}
	ev := &SpecEnv{x: x, vars: env, cur: st, old: st, c: c, pkgPath: c.Pkg}
	for i, r := range c.Requires {
		x.oblige("PRE", fmt.Sprintf("precondition %d of %s: %s", i+1, shortKey(c.Key), r.Text), g, ev.evalBool(r.E), pos)
	}
	// freeze pre-state: `pre` shares st's history; subsequent writes go to st only.
	frozen := &State{x: x, heap: st.heap, cells: st.cells, alloc: st.alloc, base: st.base, parents: st.parents, epoch: st.epoch}
	st.heap = map[string]*Term{}
	st.cells = map[ssa.Value]Value{}
	st.base = frozen
	st.parents = nil
	// results (created first: modifies clauses may mention them)
	var res Value
	rt := sig.Results()
	switch rt.Len() {
	case 0:
	case 1:
		res = x.freshVal("ret."+shortName(key), rt.At(0).Type())
	default:
		res = x.freshVal("ret."+shortName(key), rt)
	}
	// the callee may allocate: references it hands back (results, havocked locations) are below the new counter
	na := tc.Fresh("ALLOC", x.refSort())
	x.addFact(x.intLe(frozen.alloc, na))
	x.allocBound(na)
	st.alloc = na
	if c.ModAll {
		// `modifies *` in a written contract means everything, ghost state included (only calls WITHOUT any
		// contract keep ghost state, see havocAll)
		x.havocAll(st)
		if st.base != nil {
			st.base.ghostBase = nil
		}
		x.addFact(x.intLe(na, st.alloc))
	} else {
		mev := &SpecEnv{x: x, vars: map[string]TV{}, cur: frozen, old: frozen, c: c, pkgPath: c.Pkg}
		for k, v := range env {
			mev.vars[k] = v
		}
		mev.bindResults(c, rt, res)
		mev.payload = payload
		mev.guard = g
		for _, m := range c.Modifies {
			x.havocLoc(mev, m.E, frozen, st)
		}
	}
	pev := &SpecEnv{x: x, vars: env, cur: st, old: frozen, c: c, pkgPath: c.Pkg}
	switch rt.Len() {
	case 1:
		x.inputFacts(st, res, rt.At(0).Type())
	default:
		if rt.Len() > 1 {
			for i, e := range res.(TupleV) {
				x.inputFacts(st, e, rt.At(i).Type())
			}
		}
	}
	pev.bindResults(c, rt, res)
	for _, en := range c.Ensures {
		x.assume(g, pev.evalBool(en.E))
	}
	for _, gs := range c.GhostSets {
		// value computed in the post-state (old() = pre-state), then the ghost location is set
		val := pev.eval(gs[1].E)
		loc := pev.evalPlace(gs[0].E)
		if loc == nil {
			unsupp("ghostset %s: not a ghost location", gs[0].Text)
		}
		vt, ok := val.v.(*Term)
		if !ok {
			unsupp("ghostset %s: non-scalar value", gs[0].Text)
		}
		nv := tc.Fresh("ghostset", vt.sort)
		x.assume(g, tc.Eq(nv, vt))
		x.store(st, loc, nv)
	}
	for _, en := range c.Defines {
		x.assume(g, pev.evalBool(en.E))
		x.trustedUsed["definitional clause of "+shortKey(c.Key)+": "+en.Text] = true
	}
	return res
}

func shortName(key string) string {
	if i := strings.LastIndex(key, "."); i >= 0 {
		return key[i+1:]
	}
	return key
}

// havocLoc havocs the location(s) denoted by a modifies expression.
func (x *FnExec) havocLoc(ev *SpecEnv, e SExpr, pre, st *State) {
	tc := x.tc
	switch m := e.(type) {
	case *SSlice:
		base := ev.eval(m.X)
		sl, ok := base.v.(*SliceV)
		if !ok {
			unsupp("modifies %s: not a slice", showSpec(e))
		}
		et := base.t.Underlying().(*types.Slice).Elem()
		lo := x.refConst(0)
		hi := sl.ln
		if m.Lo != nil {
			lo = ev.evalInt(m.Lo)
		}
		if m.Hi != nil {
			hi = ev.evalInt(m.Hi)
		}
		var ls []leaf
		x.leaves(et, "", &ls)
		for _, l := range ls {
			key := "elem:" + typeKey(et) + l.path
			as := SArr(x.refSort(), l.sort)
			hs := SArr(x.refSort(), as)
			h := st.getHeap(key, hs)
			oldA := tc.Select(h, sl.arr)
			newA := tc.Fresh("modarr", as)
			i := tc.BVar("i", x.refSort())
			outside := tc.Or(x.intLt(i, x.intAdd(sl.off, lo)), x.intGe(i, x.intAdd(sl.off, hi)))
			fact := tc.Forall([]*Term{i}, tc.Implies(outside, tc.Eq(tc.Select(newA, i), tc.Select(oldA, i))))
			if ev.guard != nil {
				x.assume(ev.guard, fact)
			} else {
				x.addFact(fact)
			}
			st.setHeap(key, tc.Store(h, sl.arr, newA))
		}
	case *SCall:
		if id, ok := m.Fun.(*SIdent); ok && id.Name == "pointee" {
			// pointee(p): the object an interface parameter holds a pointer to (type known statically at the call site)
			pn, ok := m.Args[0].(*SIdent)
			if !ok {
				unsupp("pointee: argument must be a parameter name")
			}
			pt := ev.payload[pn.Name]
			if pt == nil {
				unsupp("pointee(%s): dynamic type of the argument is not statically known at this call", pn.Name)
			}
			a := ev.eval(m.Args[0])
			id := a.v.(*Term)
			var ls []leaf
			x.leaves(pt, "", &ls)
			ref := tc.UF("unbox:"+typeKey(pt)+ls[0].path, ls[0].sort, id)
			obj := deref(pt)
			loc := &Place{kind: pkHeap, ref: ref, obj: obj}
			prefix, t, _ := x.placeKey(loc)
			nv := x.freshVal("mod.pointee", t)
			x.inputFacts(st, nv, t)
			x.storeTyped(st, loc, prefix, t, nv)
			return
		}
		if id, ok := m.Fun.(*SIdent); ok && id.Name == "alloftype" {
			// alloftype(T): any field of any object of struct type T
			t := ev.lookupType(showSpec(m.Args[0]))
			if t == nil {
				unsupp("alloftype: unknown type %s", showSpec(m.Args[0]))
			}
			var ls []leaf
			x.leaves(t, "", &ls)
			for _, l := range ls {
				key := "obj:" + typeKey(t) + l.path
				st.setHeap(key, tc.Fresh("modall|"+key, SArr(x.refSort(), l.sort)))
			}
			return
		}
		if id, ok := m.Fun.(*SIdent); ok && id.Name == "ghost" && len(m.Args) == 2 {
			if w, ok := m.Args[1].(*SIdent); ok && w.Name == "_" {
				gp := ev.ghostPlaceRef(m, x.refConst(0))
				prefix, _, _ := x.placeKey(gp)
				hs := x.heapSort(gp, x.scalarSort(gp.obj))
				st.setHeap(prefix, tc.Fresh("modall|"+prefix, hs))
				return
			}
		}
		loc := ev.evalPlace(e)
		if loc == nil {
			unsupp("modifies %s: not a location", showSpec(e))
		}
		x.havocPlace(loc, st, showSpec(e))
	default:
		loc := ev.evalPlace(e)
		if loc == nil {
			unsupp("modifies %s: not a location", showSpec(e))
		}
		if loc.kind == pkLocal {
			unsupp("modifies of local")
		}
		if loc.aidx != nil {
			unsupp("modifies of array element inside aggregate")
		}
		x.havocPlace(loc, st, showSpec(e))
	}
}

// havocPlace havocs a location; for a map-typed location also the contents of the map it refers to.
func (x *FnExec) havocPlace(loc *Place, st *State, what string) {
	tc := x.tc
	prefix, t, _ := x.placeKey(loc)
	if mt, ok := t.Underlying().(*types.Map); ok {
		m := x.load(st, loc).(*Term)
		dom, val, card, ks, vs := x.mapHeaps(st, mt)
		rs := x.refSort()
		dh := st.getHeap(dom, SArr(rs, SArr(ks, SBool)))
		st.setHeap(dom, tc.Store(dh, m, tc.Fresh("mod.mapdom", SArr(ks, SBool))))
		ch := st.getHeap(card, SArr(rs, rs))
		nc := tc.Fresh("mod.mapcard", rs)
		x.addFact(x.intLe(x.refConst(0), nc))
		st.setHeap(card, tc.Store(ch, m, nc))
		if vs != "" {
			h := st.getHeap(val, SArr(rs, SArr(ks, vs)))
			st.setHeap(val, tc.Store(h, m, tc.Fresh("mod.mapval", SArr(ks, vs))))
		} else {
			var ls []leaf
			x.leaves(mt.Elem(), "", &ls)
			for _, l := range ls {
				h := st.getHeap(val+l.path, SArr(rs, SArr(ks, l.sort)))
				st.setHeap(val+l.path, tc.Store(h, m, tc.Fresh("mod.mapval", SArr(ks, l.sort))))
			}
		}
	}
	nv := x.freshVal("mod."+sanitize(what), t)
	x.inputFacts(st, nv, t)
	x.storeTyped(st, loc, prefix, t, nv)
}

// ---------- builtins ----------

func (x *FnExec) builtin(fr *Frame, b *ssa.Builtin, cc *ssa.CallCommon, st *State, g *Term, pos token.Pos) Value {
	tc := x.tc
	switch b.Name() {
	case "recover":
		// only non-panicking executions are modelled (a reachable panic is a violation or ends the path):
		// in those recover() returns nil
		return x.refConst(0)
	case "len", "cap":
		a := fr.val(cc.Args[0])
		var r *Term
		switch v := a.(type) {
		case *SliceV:
			if b.Name() == "len" {
				r = v.ln
			} else {
				r = v.cp
			}
		case *Term:
			switch ut := cc.Args[0].Type().Underlying().(type) {
			case *types.Basic:
				r = x.strLen(v)
			case *types.Map:
				r = x.mapLen(st, ut, v)
			case *types.Pointer:
				r = x.refConst(ut.Elem().Underlying().(*types.Array).Len())
			default:
				unsupp("len of %s", cc.Args[0].Type())
			}
		case *ArrV:
			r = x.refConst(v.n)
		default:
			unsupp("len of %T", a)
		}
		return r
	case "append":
		return x.appendBuiltin(fr, cc, st, g, pos)
	case "copy":
		dst := fr.val(cc.Args[0]).(*SliceV)
		et := cc.Args[0].Type().Underlying().(*types.Slice).Elem()
		var n *Term
		if src, ok := fr.val(cc.Args[1]).(*SliceV); ok {
			n = tc.Ite(x.intLe(dst.ln, src.ln), dst.ln, src.ln)
			x.copyElems(st, et, dst, src, n, g)
		} else {
			// copy(dst, string)
			s := fr.val(cc.Args[1]).(*Term)
			sl := x.stringToBytes(st, s)
			n = tc.Ite(x.intLe(dst.ln, sl.ln), dst.ln, sl.ln)
			x.copyElems(st, et, dst, sl, n, g)
		}
		return n
	case "delete":
		mt := cc.Args[0].Type().Underlying().(*types.Map)
		x.mapDelete(st, mt, fr.val(cc.Args[0]).(*Term), x.asComparable(fr.val(cc.Args[1])).(*Term))
		return nil
	case "print", "println":
		return nil
	}
	unsupp("builtin %s", b.Name())
	return nil
}

// copyElems: dst[0:n] = src[0:n] (memmove semantics), everything else unchanged.
func (x *FnExec) copyElems(st *State, et types.Type, dst, src *SliceV, n *Term, g *Term) {
	tc := x.tc
	var ls []leaf
	x.leaves(et, "", &ls)
	for _, l := range ls {
		key := "elem:" + typeKey(et) + l.path
		as := SArr(x.refSort(), l.sort)
		hs := SArr(x.refSort(), as)
		h := st.getHeap(key, hs)
		oldD := tc.Select(h, dst.arr)
		oldS := tc.Select(h, src.arr)
		newA := tc.Fresh("copy", as)
		i := tc.BVar("i", x.refSort())
		j := tc.BVar("j", x.refSort())
		z := x.refConst(0)
		// copied part (relative index), and everything else unchanged
		x.assume(g, tc.Forall([]*Term{j}, tc.Implies(tc.And(x.intLe(z, j), x.intLt(j, n)),
			tc.Eq(tc.Select(newA, x.intAdd(dst.off, j)), tc.Select(oldS, x.intAdd(src.off, j))))))
		inside := tc.And(x.intLe(dst.off, i), x.intLt(i, x.intAdd(dst.off, n)))
		x.assume(g, tc.Forall([]*Term{i}, tc.Eq(tc.Select(newA, i), tc.Ite(inside, tc.Select(oldS, x.intAdd(x.intSub(i, dst.off), src.off)), tc.Select(oldD, i)))))
		st.setHeap(key, tc.Store(h, dst.arr, newA))
	}
}

func (x *FnExec) appendBuiltin(fr *Frame, cc *ssa.CallCommon, st *State, g *Term, pos token.Pos) Value {
	tc := x.tc
	s := fr.val(cc.Args[0]).(*SliceV)
	et := cc.Args[0].Type().Underlying().(*types.Slice).Elem()
	var add *SliceV
	switch a := fr.val(cc.Args[1]).(type) {
	case *SliceV:
		add = a
	case *Term:
		add = x.stringToBytes(st, a)
	}
	// name ite-valued components of the operands (phi merges): ite terms inside quantifier patterns defeat E-matching
	nameIn := func(prefix string, def *Term) *Term {
		if def.op != "ite" {
			return def
		}
		v := tc.Fresh(prefix, def.sort)
		x.assume(g, tc.Eq(v, def))
		return v
	}
	s = &SliceV{nameIn("appin.arr", s.arr), nameIn("appin.off", s.off), nameIn("appin.len", s.ln), nameIn("appin.cap", s.cp)}
	add = &SliceV{nameIn("appadd.arr", add.arr), nameIn("appadd.off", add.off), nameIn("appadd.len", add.ln), nameIn("appadd.cap", add.cp)}
	// Either in place (len+n <= cap) or a fresh array.  Model: result array r2.
	n := add.ln
	newLen := x.intAdd(s.ln, n)
	fits := x.intLe(newLen, s.cp)
	// in-place branch state
	fresh := x.newRef(st)
	newCap := tc.Fresh("appcap", x.refSort())
	x.addFact(x.intLe(newLen, newCap))
	x.addFact(x.intLe(newCap, x.intConstSort(1<<48, x.refSort())))
	resArr := tc.Ite(fits, s.arr, fresh)
	resOff := tc.Ite(fits, s.off, x.refConst(0))
	resCap := tc.Ite(fits, s.cp, newCap)
	// nothing appended: Go returns the slice unchanged
	isEmpty := tc.Eq(n, x.refConst(0))
	// name the result components (ite terms inside quantifier patterns defeat E-matching)
	name := func(prefix string, def *Term) *Term {
		if def.op != "ite" {
			return def
		}
		v := tc.Fresh(prefix, def.sort)
		x.assume(g, tc.Eq(v, def))
		return v
	}
	res := &SliceV{name("app.arr", tc.Ite(isEmpty, s.arr, resArr)), name("app.off", tc.Ite(isEmpty, s.off, resOff)), newLen, name("app.cap", tc.Ite(isEmpty, s.cp, resCap))}
	// derived facts that spare the solver a case analysis: the result is the old array (same offset) or a brand-new one
	x.assume(g, tc.Or(tc.And(tc.Eq(res.arr, s.arr), tc.Eq(res.off, s.off), tc.Eq(res.cp, s.cp)), tc.And(tc.Eq(res.arr, fresh), tc.Eq(res.off, x.refConst(0)))))
	var ls []leaf
	x.leaves(et, "", &ls)
	for _, l := range ls {
		key := "elem:" + typeKey(et) + l.path
		as := SArr(x.refSort(), l.sort)
		hs := SArr(x.refSort(), as)
		h := st.getHeap(key, hs)
		oldR := tc.Select(h, res.arr)
		oldS := tc.Select(h, s.arr)
		oldA := tc.Select(h, add.arr)
		newA := tc.Fresh("app", as)
		i := tc.BVar("i", x.refSort())
		j := tc.BVar("j", x.refSort())
		z := x.refConst(0)
		base := x.intAdd(res.off, s.ln)
		// kept part, appended part (relative indexes give clean instantiation terms), and the rest unchanged
		x.assume(g, tc.Forall([]*Term{j}, tc.Implies(tc.And(x.intLe(z, j), x.intLt(j, s.ln)),
			tc.Eq(tc.Select(newA, x.intAdd(res.off, j)), tc.Select(oldS, x.intAdd(s.off, j))))))
		x.assume(g, tc.Forall([]*Term{j}, tc.Implies(tc.And(x.intLe(z, j), x.intLt(j, n)),
			tc.Eq(tc.Select(newA, x.intAdd(base, j)), tc.Select(oldA, x.intAdd(add.off, j))))))
		// boundary instances of the kept part (first and last old element) spare the solver an instantiation
		for _, jj := range []*Term{z, x.intSub(s.ln, x.refConst(1))} {
			x.assume(g, tc.Implies(tc.And(x.intLe(z, jj), x.intLt(jj, s.ln)),
				tc.Eq(tc.Select(newA, x.intAdd(res.off, jj)), tc.Select(oldS, x.intAdd(s.off, jj)))))
		}
		if c, ok := n.intConst(); ok && c.Int64() <= 4 {
			for k := int64(0); k < c.Int64(); k++ {
				x.assume(g, tc.Eq(tc.Select(newA, x.intAdd(base, x.refConst(k))), tc.Select(oldA, x.intAdd(add.off, x.refConst(k)))))
			}
		}
		inOld := tc.And(x.intLe(res.off, i), x.intLt(i, base))
		inNew := tc.And(x.intLe(base, i), x.intLt(i, x.intAdd(res.off, newLen)))
		val := tc.Ite(inNew, tc.Select(oldA, x.intAdd(x.intSub(i, base), add.off)),
			tc.Ite(inOld, tc.Select(oldS, x.intAdd(x.intSub(i, res.off), s.off)), tc.Select(oldR, i)))
		x.assume(g, tc.Forall([]*Term{i}, tc.Eq(tc.Select(newA, i), val)))
		st.setHeap(key, tc.Store(h, res.arr, newA))
	}
	x.sliceFacts(res)
	return res
}

// sync/atomic on modelled memory: sequential semantics (data-race freedom is a stated assumption).
func (x *FnExec) atomicIntrinsic(fr *Frame, key string, cc *ssa.CallCommon, args []Value, st *State, g *Term) (Value, bool) {
	name := key[len("sync/atomic."):]
	if len(args) == 0 {
		return nil, false
	}
	p := x.ptrPlace(args[0], cc.Args[0].Type())
	et := deref(cc.Args[0].Type())
	switch {
	case strings.HasPrefix(name, "Load"):
		return x.load(st, p), true
	case strings.HasPrefix(name, "Store"):
		x.store(st, p, args[1])
		return nil, true
	case strings.HasPrefix(name, "Add"):
		old := x.load(st, p).(*Term)
		r, _ := x.arith(token.ADD, old, args[1].(*Term), et, false)
		x.store(st, p, r)
		return r, true
	case strings.HasPrefix(name, "Swap"):
		old := x.load(st, p)
		x.store(st, p, args[1])
		return old, true
	case strings.HasPrefix(name, "CompareAndSwap"):
		old := x.load(st, p).(*Term)
		eq := x.tc.Eq(old, args[1].(*Term))
		x.store(st, p, x.tc.Ite(eq, args[2].(*Term), old))
		return eq, true
	}
	return nil, false
}

// sortIntrinsic: sort.Sort on a pointer to a named slice of integers whose Less is `<` (checked: the
// Less method of the type must be under an `inline` contract or be the obvious one is NOT checked here:
// this is a trusted model of sort.Sort + uint64Slice.Less): afterwards the elements are ascending and
// are a rearrangement of the old ones (every new value is an old value and vice versa).
func (x *FnExec) sortIntrinsic(fr *Frame, cc *ssa.CallCommon, args []Value, pt types.Type, st *State, g *Term) (Value, bool) {
	tc := x.tc
	ptr, ok := pt.Underlying().(*types.Pointer)
	if !ok {
		return nil, false
	}
	slt, ok := ptr.Elem().Underlying().(*types.Slice)
	if !ok || !isIntType(slt.Elem()) {
		return nil, false
	}
	mi := cc.Args[0].(*ssa.MakeInterface)
	pl := x.ptrPlace(fr.val(mi.X), mi.X.Type())
	sl := x.load(st, pl).(*SliceV)
	x.trustedUsed["sort.Sort on "+typeKey(ptr.Elem())+" (sorted rearrangement)"] = true
	et := slt.Elem()
	key := "elem:" + typeKey(et)
	es := x.scalarSort(et)
	as := SArr(x.refSort(), es)
	hs := SArr(x.refSort(), as)
	h := st.getHeap(key, hs)
	oldA := tc.Select(h, sl.arr)
	newA := tc.Fresh("sorted", as)
	i := tc.BVar("i", x.refSort())
	j := tc.BVar("j", x.refSort())
	lo, hi := sl.off, x.intAdd(sl.off, sl.ln)
	in := func(v *Term) *Term { return tc.And(x.intLe(lo, v), x.intLt(v, hi)) }
	x.assume(g, tc.Forall([]*Term{i}, tc.Implies(tc.Not(in(i)), tc.Eq(tc.Select(newA, i), tc.Select(oldA, i)))))
	x.assume(g, tc.Forall([]*Term{i, j}, tc.Implies(tc.And(in(i), in(j), x.intLe(i, j)), x.compare(token.LEQ, tc.Select(newA, i), tc.Select(newA, j), et))))
	x.assume(g, tc.Forall([]*Term{i}, tc.Implies(in(i), tc.Exists([]*Term{j}, tc.And(in(j), tc.Eq(tc.Select(newA, i), tc.Select(oldA, j)))))))
	x.assume(g, tc.Forall([]*Term{j}, tc.Implies(in(j), tc.Exists([]*Term{i}, tc.And(in(i), tc.Eq(tc.Select(newA, i), tc.Select(oldA, j)))))))
	st.setHeap(key, tc.Store(h, sl.arr, newA))
	return nil, true
}
