package main

import (
	"fmt"
	"go/constant"
	"go/types"
	"os"
	"path/filepath"
	"sort"
	"strings"

	"golang.org/x/tools/go/packages"
	"golang.org/x/tools/go/ssa"
	"golang.org/x/tools/go/ssa/ssautil"
)

const repoMod = "github.com/youzan/ZanRedisDB"

type Engine struct {
	repo     string
	buildDir string
	modfile  string
	prog     *ssa.Program
	pkgs     []*packages.Package
	spkg     map[string]*ssa.Package
	funcs    map[string]*ssa.Function
	cs       *ContractSet
	// globals that are never stored to outside package init, with their constant initialiser (if simple)
	constGlobal map[*ssa.Global]*ssa.Const
	errGlobal   map[*ssa.Global]bool   // initialised once with errors.New / fmt.Errorf: distinct non-nil
	zeroGlobal  map[*ssa.Global]bool   // never stored, zero value (any type)
	bytesGlobal map[*ssa.Global]string // never-reassigned []byte global initialised from a constant string
	storedGlob  map[*ssa.Global]int
	loadErrs    []string
	aliases     map[string]map[string]string // package path -> import alias -> import path
	genNotes    []string
	eff         *effectInfo
}

func loadEngine(repo, buildDir string, patterns []string) (*Engine, error) {
	mf, err := prepareBuild(repo, buildDir)
	if err != nil {
		return nil, err
	}
	e := &Engine{repo: repo, buildDir: buildDir, modfile: mf, spkg: map[string]*ssa.Package{}, funcs: map[string]*ssa.Function{}}
	cfg := &packages.Config{
		Mode:       packages.LoadAllSyntax,
		Dir:        repo,
		BuildFlags: []string{"-modfile=" + mf, "-tags=verif"},
		Env: append(os.Environ(), "GOFLAGS=-mod=mod", "GOPROXY=off", "GOSUMDB=off", "GOTOOLCHAIN=local",
			"CGO_ENABLED=1"),
	}
	// generated lemma functions (C11 pairing of validators and apply handlers): overlay, never written to the repo
	if src, gerr := genC11Go(repo); gerr == nil {
		cfg.Overlay = map[string][]byte{filepath.Join(repo, "node", "zz_verif_gen_c11.go"): []byte(src)}
		os.WriteFile(filepath.Join(buildDir, "zz_verif_gen_c11.go"), []byte(src), 0o644)
	} else {
		e.loadErrs = append(e.loadErrs, "gen_c11: "+gerr.Error())
	}
	pkgs, err := packages.Load(cfg, patterns...)
	if err != nil {
		return nil, err
	}
	for _, p := range pkgs {
		for _, er := range p.Errors {
			e.loadErrs = append(e.loadErrs, er.Error())
		}
	}
	if len(e.loadErrs) > 0 {
		return e, fmt.Errorf("package load errors: %s", strings.Join(e.loadErrs, "; "))
	}
	e.aliases = map[string]map[string]string{}
	for _, p := range pkgs {
		m := map[string]string{}
		for _, f := range p.Syntax {
			for _, imp := range f.Imports {
				if imp.Name != nil && imp.Name.Name != "_" && imp.Name.Name != "." {
					m[imp.Name.Name] = strings.Trim(imp.Path.Value, "\"")
				}
			}
		}
		e.aliases[p.PkgPath] = m
	}
	prog, spkgs := ssautil.AllPackages(pkgs, ssa.GlobalDebug|ssa.BareInits)
	e.prog = prog
	e.pkgs = pkgs
	// build only repo packages and the few externals we look into
	for i, sp := range spkgs {
		if sp == nil {
			continue
		}
		_ = i
	}
	for _, sp := range prog.AllPackages() {
		path := sp.Pkg.Path()
		e.spkg[path] = sp
		if strings.HasPrefix(path, repoMod) || path == "github.com/youzan/go-zanredisdb" {
			sp.Build()
		}
	}
	// function index
	for _, sp := range prog.AllPackages() {
		path := sp.Pkg.Path()
		if !(strings.HasPrefix(path, repoMod) || path == "github.com/youzan/go-zanredisdb") {
			continue
		}
		for _, m := range sp.Members {
			switch mm := m.(type) {
			case *ssa.Function:
				e.addFunc(mm)
			case *ssa.Type:
				t := mm.Type()
				for _, tt := range []types.Type{t, types.NewPointer(t)} {
					ms := prog.MethodSets.MethodSet(tt)
					for i := 0; i < ms.Len(); i++ {
						if f := prog.MethodValue(ms.At(i)); f != nil && f.Synthetic == "" {
							e.addFunc(f)
						}
					}
				}
			}
		}
	}
	e.scanGlobals()
	e.computeEffects()
	return e, nil
}

func (e *Engine) addFunc(f *ssa.Function) {
	if _, ok := e.funcs[f.String()]; ok {
		return
	}
	e.funcs[f.String()] = f
	for _, a := range f.AnonFuncs {
		e.addFunc(a)
	}
}

func (e *Engine) scanGlobals() {
	e.constGlobal = map[*ssa.Global]*ssa.Const{}
	e.errGlobal = map[*ssa.Global]bool{}
	e.bytesGlobal = map[*ssa.Global]string{}
	e.zeroGlobal = map[*ssa.Global]bool{}
	e.storedGlob = map[*ssa.Global]int{}
	initVal := map[*ssa.Global]ssa.Value{}
	addrTaken := map[*ssa.Global]bool{}
	for _, f := range e.funcs {
		if f.Blocks == nil {
			continue
		}
		isInit := f.Name() == "init" && f.Synthetic != ""
		for _, b := range f.Blocks {
			for _, in := range b.Instrs {
				if st, ok := in.(*ssa.Store); ok {
					if g, ok := st.Addr.(*ssa.Global); ok {
						if isInit {
							if _, dup := initVal[g]; dup {
								e.storedGlob[g] += 2
							}
							initVal[g] = st.Val
						} else {
							e.storedGlob[g]++
						}
					}
				}
				// address escapes (anything but load/store through the global itself)
				for _, op := range in.Operands(nil) {
					if g, ok := (*op).(*ssa.Global); ok {
						switch x := in.(type) {
						case *ssa.Store:
							if x.Addr == g && x.Val != ssa.Value(g) {
								continue
							}
						case *ssa.UnOp:
							continue
						case *ssa.FieldAddr, *ssa.IndexAddr:
							// reading/writing parts: treat as potentially stored unless all uses are loads (conservative: mark)
							addrTaken[g] = true
							continue
						case *ssa.DebugRef:
							continue
						}
						addrTaken[g] = true
					}
				}
			}
		}
	}
	for g, v := range initVal {
		if e.storedGlob[g] > 0 || addrTaken[g] {
			continue
		}
		switch x := v.(type) {
		case *ssa.Const:
			if x.Value == nil {
				if _, isBasic := x.Type().Underlying().(*types.Basic); !isBasic {
					e.zeroGlobal[g] = true
					continue
				}
			}
			e.constGlobal[g] = x
		case *ssa.Call:
			if cal := x.Call.StaticCallee(); cal != nil {
				if s := cal.String(); s == "errors.New" || s == "fmt.Errorf" {
					e.errGlobal[g] = true
				}
			}
			// error-like sentinels built by a constructor: var ErrX = NewFooErr(...) of type *FooErr / *FooError
			if pt, ok := g.Type().(*types.Pointer).Elem().Underlying().(*types.Pointer); ok {
				if nt, ok := pt.Elem().(*types.Named); ok {
					n := nt.Obj().Name()
					if strings.HasSuffix(n, "Err") || strings.HasSuffix(n, "Error") {
						e.errGlobal[g] = true
					}
				}
			}
		case *ssa.Alloc:
			if pt, ok := g.Type().(*types.Pointer).Elem().Underlying().(*types.Pointer); ok {
				if nt, ok := pt.Elem().(*types.Named); ok {
					n := nt.Obj().Name()
					if strings.HasSuffix(n, "Err") || strings.HasSuffix(n, "Error") {
						e.errGlobal[g] = true
					}
				}
			}
		case *ssa.Convert:
			if c, ok := x.X.(*ssa.Const); ok && c.Value != nil && c.Value.Kind() == constant.String {
				if sl, ok := x.Type().Underlying().(*types.Slice); ok && types.Identical(sl.Elem().Underlying(), types.Typ[types.Uint8]) {
					e.bytesGlobal[g] = constant.StringVal(c.Value)
				}
			}
		case *ssa.MakeInterface:
			// e.g. var ErrX = &someErr{...} or common.NewXError
			if types.Identical(g.Type().(*types.Pointer).Elem().Underlying(), types.Universe.Lookup("error").Type().Underlying()) {
				e.errGlobal[g] = true
			}
		}
	}
	// globals with zero-value (no init store) and never stored: constant zero
	for _, sp := range e.prog.AllPackages() {
		if !strings.HasPrefix(sp.Pkg.Path(), repoMod) {
			continue
		}
		for _, m := range sp.Members {
			if g, ok := m.(*ssa.Global); ok {
				if _, has := initVal[g]; !has && e.storedGlob[g] == 0 && !addrTaken[g] {
					if b, ok := g.Type().(*types.Pointer).Elem().Underlying().(*types.Basic); ok && b.Info()&(types.IsInteger|types.IsBoolean) != 0 {
						e.constGlobal[g] = ssa.NewConst(nil, g.Type().(*types.Pointer).Elem())
					} else if _, isStruct := g.Type().(*types.Pointer).Elem().Underlying().(*types.Struct); isStruct {
						e.zeroGlobal[g] = true
					}
				}
			}
		}
	}
}

// loadContracts reads every zz_verif_contracts*.go in the repo plus the trusted specs.
func (e *Engine) loadContracts(trustedDir string) error {
	e.cs = NewContractSet()
	files, _ := filepath.Glob(filepath.Join(trustedDir, "*.spec"))
	sort.Strings(files)
	for _, f := range files {
		if err := e.cs.ParseFile(f, "trusted"); err != nil {
			return err
		}
	}
	for _, p := range e.pkgs {
		e.walkPkg(p, map[string]bool{})
	}
	var paths []string
	seen := map[string]bool{}
	for path := range e.spkg {
		if strings.HasPrefix(path, repoMod) && !seen[path] {
			seen[path] = true
			paths = append(paths, path)
		}
	}
	sort.Strings(paths)
	for _, path := range paths {
		dir := filepath.Join(e.repo, strings.TrimPrefix(strings.TrimPrefix(path, repoMod), "/"))
		fs, _ := filepath.Glob(filepath.Join(dir, "zz_verif_contracts*.go"))
		sort.Strings(fs)
		for _, f := range fs {
			if err := e.cs.ParseFile(f, path); err != nil {
				return err
			}
		}
	}
	// diagnostic only (never used by a registered check): extra contract files, "file=pkgpath,file=pkgpath"
	if extra := os.Getenv("VERIF_EXTRA_SPEC"); extra != "" {
		for _, fp := range strings.Split(extra, ",") {
			kv := strings.SplitN(fp, "=", 2)
			if len(kv) == 2 {
				if err := e.cs.ParseFile(kv[0], kv[1]); err != nil {
					return err
				}
			}
		}
	}
	// contracts of the generated C11 pairing lemmas
	nodePkg := repoMod + "/node"
	spec, notes, err := genC11Spec(e.repo, func(h string) bool {
		_, ok := e.cs.Contracts["(*"+nodePkg+".kvStoreSM)."+h]
		return ok
	}, func(w string) bool {
		_, ok := e.cs.Specs[nodePkg+".shape_"+w]
		return ok
	})
	if err != nil {
		return err
	}
	e.genNotes = notes
	sp := filepath.Join(e.buildDir, "zz_verif_gen_c11.spec")
	if err := os.WriteFile(sp, []byte(spec), 0o644); err != nil {
		return err
	}
	if err := e.cs.ParseFile(sp, nodePkg); err != nil {
		return err
	}
	return nil
}

func (e *Engine) walkPkg(p *packages.Package, seen map[string]bool) {}
