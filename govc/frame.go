package main

import (
	"fmt"
	"go/types"
	"sort"
	"strings"
)

type modLoc struct {
	prefix   string
	place    *Place
	sl       *SliceV // slice range (elem heap)
	lo, hi   *Term
	mapRef   *Term
	mapKey   string
	wholeKey bool
	unknown  bool // extent could not be evaluated (e.g. mentions the result inside a loop): covers everything under prefix kind
}

// modLocs evaluates the modifies clauses of the top-level contract in the entry state.
func (x *FnExec) modLocs(fr *Frame, entry *State, c *Contract, rv Value, haveResult bool) []modLoc {
	ev := x.specEnv(fr, entry, entry, c)
	if haveResult {
		ev.bindResults(c, x.topFn.Signature.Results(), rv)
	}
	var mods []modLoc
	for _, m := range c.Modifies {
		var ml modLoc
		ok := func() (ok bool) {
			defer func() {
				if r := recover(); r != nil {
					if _, isU := r.(unsupported); isU && !haveResult {
						ok = false
						return
					}
					panic(r)
				}
			}()
			if ss, isSl := m.E.(*SSlice); isSl {
				base := ev.eval(ss.X)
				sl := base.v.(*SliceV)
				et := base.t.Underlying().(*types.Slice).Elem()
				ml = modLoc{prefix: "elem:" + typeKey(et), sl: sl}
				ml.lo, ml.hi = x.refConst(0), sl.ln
				if ss.Lo != nil {
					ml.lo = ev.evalInt(ss.Lo)
				}
				if ss.Hi != nil {
					ml.hi = ev.evalInt(ss.Hi)
				}
				return true
			}
			if sc, isCall := m.E.(*SCall); isCall {
				if id, ok := sc.Fun.(*SIdent); ok && id.Name == "alloftype" {
					t := ev.lookupType(showSpec(sc.Args[0]))
					if t == nil {
						unsupp("alloftype: unknown type %s", showSpec(sc.Args[0]))
					}
					ml = modLoc{prefix: "obj:" + typeKey(t), wholeKey: true}
					return true
				}
			}
			p := ev.evalPlace(m.E)
			if p == nil {
				unsupp("modifies %s: not a location", m.Text)
			}
			if p.kind == pkHeap && p.ref == nil {
				// wildcard ghost(name, _): the whole ghost component may change
				p.ref = x.refConst(0)
				prefix, _, _ := x.placeKey(p)
				ml = modLoc{prefix: prefix, wholeKey: true}
				return true
			}
			prefix, t, _ := x.placeKey(p)
			ml = modLoc{prefix: prefix, place: p}
			if mt, isMap := t.Underlying().(*types.Map); isMap {
				ml.mapRef = x.load(entry, p).(*Term)
				ml.mapKey = typeKey(mt)
			}
			return true
		}()
		if !ok {
			ml = modLoc{unknown: true}
		}
		mods = append(mods, ml)
	}
	return mods
}

func covers(prefix, key string) bool {
	return key == prefix || strings.HasPrefix(key, prefix+".")
}

// frameCond: in heap component k, every location that existed at entry and is not in the
// modifies set has its entry value in state st.  Returns nil if no condition applies.
func (x *FnExec) frameCond(mods []modLoc, k string, entry, st *State) *Term {
	tc := x.tc
	for _, m := range mods {
		if m.unknown {
			return nil
		}
	}
	for _, m := range mods {
		if m.wholeKey && covers(m.prefix, k) {
			return tc.True()
		}
	}
	hs := x.heapSorts[k]
	h0 := entry.getHeap(k, hs)
	h1 := st.getHeap(k, hs)
	if h0 == h1 {
		return tc.True()
	}
	r := tc.BVar("r", x.refSort())
	existed := tc.And(x.intLt(x.refConst(0), r), x.intLt(r, entry.alloc))
	switch {
	case strings.HasPrefix(k, "obj:"):
		var exc []*Term
		for _, m := range mods {
			if m.place != nil && m.place.kind == pkHeap && covers(m.prefix, k) {
				exc = append(exc, tc.Eq(r, m.place.ref))
			}
		}
		return tc.Forall([]*Term{r}, tc.Implies(tc.And(existed, tc.Not(tc.Or(exc...))), tc.Eq(tc.Select(h1, r), tc.Select(h0, r))))
	case strings.HasPrefix(k, "elem:"):
		i := tc.BVar("i", x.refSort())
		var exc []*Term
		for _, m := range mods {
			if m.sl != nil && covers(m.prefix, k) {
				exc = append(exc, tc.And(tc.Eq(r, m.sl.arr), x.intLe(x.intAdd(m.sl.off, m.lo), i), x.intLt(i, x.intAdd(m.sl.off, m.hi))))
			}
			if m.place != nil && m.place.kind == pkElem && covers(m.prefix, k) {
				exc = append(exc, tc.And(tc.Eq(r, m.place.arr), tc.Eq(i, m.place.idx)))
			}
		}
		return tc.Forall([]*Term{r, i}, tc.Implies(tc.And(existed, tc.Not(tc.Or(exc...))), tc.Eq(tc.Select(tc.Select(h1, r), i), tc.Select(tc.Select(h0, r), i))))
	case strings.HasPrefix(k, "mapdom:"), strings.HasPrefix(k, "mapval:"), strings.HasPrefix(k, "mapcard:"):
		mk := k[strings.Index(k, ":")+1:]
		var exc []*Term
		for _, m := range mods {
			if m.mapRef != nil && (mk == m.mapKey || strings.HasPrefix(mk, m.mapKey+".")) {
				exc = append(exc, tc.Eq(r, m.mapRef))
			}
		}
		return tc.Forall([]*Term{r}, tc.Implies(tc.And(existed, tc.Not(tc.Or(exc...))), tc.Eq(tc.Select(h1, r), tc.Select(h0, r))))
	case strings.HasPrefix(k, "glob:"):
		return tc.Eq(h1, h0)
	}
	return nil
}

// frameObligations: every modelled heap location that existed at entry and is
// not named by a modifies clause is unchanged at return.
func (x *FnExec) frameObligations(fr *Frame, entry, rst *State, rg *Term, c *Contract, rv Value) {
	mods := x.modLocs(fr, entry, c, rv, true)
	var keys []string
	for k := range x.heapSorts {
		keys = append(keys, k)
	}
	sort.Strings(keys)
	for _, k := range keys {
		goal := x.frameCond(mods, k, entry, rst)
		if goal == nil || goal.isTrue() {
			continue
		}
		x.obligeNamed("FRAME", k, fmt.Sprintf("only the modifies set changes in heap component %s", k), rg, goal, fr.fn.Pos())
	}
}
