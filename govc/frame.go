package main

import (
	"fmt"
	"go/types"
	"sort"
	"strings"
)

// frameObligations: every modelled heap location that existed at entry and is
// not named by a modifies clause is unchanged at return.
func (x *FnExec) frameObligations(fr *Frame, entry, rst *State, rg *Term, c *Contract, rv Value) {
	tc := x.tc
	ev := x.specEnv(fr, entry, entry, c)
	ev.bindResults(c, fr.fn.Signature.Results(), rv)
	type modLoc struct {
		prefix string
		place  *Place
		sl     *SliceV // slice range (elem heap)
		lo, hi *Term
		mapRef *Term
		mapKey string
	}
	var mods []modLoc
	for _, m := range c.Modifies {
		if ss, ok := m.E.(*SSlice); ok {
			base := ev.eval(ss.X)
			sl := base.v.(*SliceV)
			et := base.t.Underlying().(*types.Slice).Elem()
			lo, hi := x.refConst(0), sl.ln
			if ss.Lo != nil {
				lo = ev.evalInt(ss.Lo)
			}
			if ss.Hi != nil {
				hi = ev.evalInt(ss.Hi)
			}
			mods = append(mods, modLoc{prefix: "elem:" + typeKey(et), sl: sl, lo: lo, hi: hi})
			continue
		}
		p := ev.evalPlace(m.E)
		if p == nil {
			unsupp("modifies %s: not a location", m.Text)
		}
		prefix, t, _ := x.placeKey(p)
		ml := modLoc{prefix: prefix, place: p}
		if mt, ok := t.Underlying().(*types.Map); ok {
			ml.mapRef = x.load(entry, p).(*Term)
			ml.mapKey = typeKey(mt)
		}
		mods = append(mods, ml)
	}
	var keys []string
	for k := range x.heapSorts {
		keys = append(keys, k)
	}
	sort.Strings(keys)
	covers := func(prefix, key string) bool {
		return key == prefix || strings.HasPrefix(key, prefix+".")
	}
	n := 0
	for _, k := range keys {
		hs := x.heapSorts[k]
		h0 := entry.getHeap(k, hs)
		h1 := rst.getHeap(k, hs)
		if h0 == h1 {
			continue
		}
		n++
		r := tc.BVar("r", x.refSort())
		existed := tc.And(x.intLt(x.refConst(0), r), x.intLt(r, entry.alloc))
		var goal *Term
		switch {
		case strings.HasPrefix(k, "obj:"):
			var exc []*Term
			for _, m := range mods {
				if m.place != nil && m.place.kind == pkHeap && covers(m.prefix, k) {
					exc = append(exc, tc.Eq(r, m.place.ref))
				}
			}
			goal = tc.Forall([]*Term{r}, tc.Implies(tc.And(existed, tc.Not(tc.Or(exc...))), tc.Eq(tc.Select(h1, r), tc.Select(h0, r))))
		case strings.HasPrefix(k, "elem:"):
			i := tc.BVar("i", x.refSort())
			var exc []*Term
			for _, m := range mods {
				if m.sl != nil && covers(m.prefix, k) {
					exc = append(exc, tc.And(tc.Eq(r, m.sl.arr), x.intLe(x.intAdd(m.sl.off, m.lo), i), x.intLt(i, x.intAdd(m.sl.off, m.hi))))
				}
				if m.place != nil && m.place.kind == pkElem && covers(m.prefix, k) {
					exc = append(exc, tc.And(tc.Eq(r, m.place.arr), tc.Eq(i, m.place.idx)))
				}
			}
			goal = tc.Forall([]*Term{r, i}, tc.Implies(tc.And(existed, tc.Not(tc.Or(exc...))), tc.Eq(tc.Select(tc.Select(h1, r), i), tc.Select(tc.Select(h0, r), i))))
		case strings.HasPrefix(k, "mapdom:"), strings.HasPrefix(k, "mapval:"), strings.HasPrefix(k, "mapcard:"):
			mk := k[strings.Index(k, ":")+1:]
			var exc []*Term
			for _, m := range mods {
				if m.mapRef != nil && (mk == m.mapKey || strings.HasPrefix(mk, m.mapKey+".")) {
					exc = append(exc, tc.Eq(r, m.mapRef))
				}
			}
			goal = tc.Forall([]*Term{r}, tc.Implies(tc.And(existed, tc.Not(tc.Or(exc...))), tc.Eq(tc.Select(h1, r), tc.Select(h0, r))))
		case strings.HasPrefix(k, "glob:"):
			goal = tc.Eq(h1, h0)
		default:
			continue
		}
		x.obligeNamed("FRAME", k, fmt.Sprintf("only the modifies set changes in heap component %s", k), rg, goal, fr.fn.Pos())
	}
	_ = n
}
