; Arithmetic fact used as an axiom about the uninterpreted remainder `irem` (variable modulus):
;   0 <= a < b,  b - a < n,  n > 0   ==>   a mod n  !=  b mod n
; proved here with the exact integer `mod` of SMT-LIB (unsat = the fact holds).
(set-logic ALL)
(declare-fun a () Int)(declare-fun b () Int)(declare-fun n () Int)
(assert (and (>= a 0) (> b a) (< (- b a) n) (> n 0)))
(assert (= (mod a n) (mod b n)))
(check-sat)
; (the range fact 0 <= a mod n < n for a >= 0, n > 0 is the SMT-LIB definition of mod)
