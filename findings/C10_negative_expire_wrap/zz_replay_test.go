package rockredis

import (
	"io/ioutil"
	"os"
	"testing"
	"time"

	"github.com/youzan/ZanRedisDB/common"
)

func TestVerifReplayNegativeExpire(t *testing.T) {
	dir, _ := ioutil.TempDir("", "replay")
	defer os.RemoveAll(dir)
	cfg := NewRockRedisDBConfig()
	cfg.EngineType = "mem"
	cfg.DataDir = dir
	cfg.ExpirationPolicy = common.WaitCompact
	cfg.DataVersion = common.ValueHeaderV1
	db, err := OpenRockDB(cfg)
	if err != nil {
		t.Fatal(err)
	}
	defer db.Close()
	ts := time.Now().UnixNano()
	key := []byte("test:k")
	if err := db.KVSet(ts, key, []byte("v")); err != nil {
		t.Fatal(err)
	}
	// a hugely negative duration: now - 2^32 + 1000 seconds is far in the past
	dur := int64(-(1 << 32) + 1000)
	n, err := db.Expire(ts, key, dur)
	t.Logf("Expire(%d) = %v, %v", dur, n, err)
	ttl, _ := db.KVTtl(key)
	v, _ := db.KVGet(key)
	t.Logf("after EXPIRE with duration %d: ttl=%d value=%q", dur, ttl, v)
	if err == nil && ttl > 0 {
		t.Errorf("negative duration %d produced a live key with positive ttl %d (uint32 wrap of the absolute expiry)", dur, ttl)
	}
}
