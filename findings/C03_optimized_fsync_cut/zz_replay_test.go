package wal

import (
	"io/ioutil"
	"os"
	"testing"

	"github.com/youzan/ZanRedisDB/raft/raftpb"
)

// Replay driver: in optimized-fsync mode, a Save whose only content is a changed vote/term and which also
// rolls the segment.  Run under `strace -f -e trace=fdatasync,stat,newfstatat` and count fdatasync calls
// between the two marker stats (/VERIF_MARK_BEGIN, /VERIF_MARK_END): the vote must be fdatasync'ed.
func TestVerifReplayVoteAtSegmentCut(t *testing.T) {
	dir, _ := ioutil.TempDir("", "walreplay")
	defer os.RemoveAll(dir)
	old := SegmentSizeBytes
	SegmentSizeBytes = 4 * 1024
	defer func() { SegmentSizeBytes = old }()
	w, err := Create(dir, []byte("meta"), true) // optimizedFsync = true
	if err != nil {
		t.Fatal(err)
	}
	defer w.Close()
	// fill the segment beyond the (small) segment size without triggering a cut by itself:
	// entries are saved with an unchanged hard state, the cut happens on the save that crosses the size
	data := make([]byte, 3*1024)
	if err := w.Save(raftpb.HardState{Term: 1, Vote: 1, Commit: 0}, []raftpb.Entry{{Term: 1, Index: 1, Data: data}}); err != nil {
		t.Fatal(err)
	}
	// second Save (same vote/term) pushes the flushed file position beyond the segment size
	pad := make([]byte, 2*1024)
	if err := w.Save(raftpb.HardState{Term: 1, Vote: 1, Commit: 0}, []raftpb.Entry{{Term: 1, Index: 2, Data: pad}}); err != nil {
		t.Fatal(err)
	}
	// third Save: hard state only, the vote and term change; the flushed position is already beyond
	// SegmentSizeBytes, so Save takes the cut() path
	os.Stat("/VERIF_MARK_BEGIN")
	err = w.Save(raftpb.HardState{Term: 2, Vote: 2, Commit: 0}, nil)
	os.Stat("/VERIF_MARK_END")
	if err != nil {
		t.Fatal(err)
	}
}
