package rockredis

import (
	"io/ioutil"
	"os"
	"testing"
	"time"

	"github.com/youzan/ZanRedisDB/common"
)

// The same three log entries (HSET, HEXPIRE 10, HCLEAR five log-seconds later) are applied on two stores whose wall
// clock differs relative to the log: once the log lies 1000 s in the past of the wall clock, once 1000 s in its
// future.  The reply of HCLEAR must be a function of the log alone.
func verifReplayHClearAt(t *testing.T, base int64) (int64, int64) {
	dir, _ := ioutil.TempDir("", "replay")
	defer os.RemoveAll(dir)
	cfg := NewRockRedisDBConfig()
	cfg.EngineType = "mem"
	cfg.DataDir = dir
	cfg.EnableTableCounter = true
	cfg.ExpirationPolicy = common.WaitCompact
	cfg.DataVersion = common.ValueHeaderV1
	db, err := OpenRockDB(cfg)
	if err != nil {
		t.Fatal(err)
	}
	defer db.Close()
	key := []byte("test:h")
	if _, err := db.HSet(base, false, key, []byte("f"), []byte("v")); err != nil {
		t.Fatal(err)
	}
	if _, err := db.HExpire(base, key, 10); err != nil {
		t.Fatal(err)
	}
	n, err := db.HClear(base+5*int64(time.Second), key)
	if err != nil {
		t.Fatal(err)
	}
	cnt, _ := db.GetTableKeyCount([]byte("test"))
	return n, cnt
}

func TestVerifReplayHClearWallClock(t *testing.T) {
	now := time.Now().UnixNano()
	past, pastCnt := verifReplayHClearAt(t, now-1000*int64(time.Second))
	future, futureCnt := verifReplayHClearAt(t, now+1000*int64(time.Second))
	t.Logf("HCLEAR reply with the log 1000 s behind the wall clock: %d (table count %d); 1000 s ahead: %d (table count %d)", past, pastCnt, future, futureCnt)
	if past != future || pastCnt != futureCnt {
		t.Errorf("HCLEAR depends on the replica's wall clock: reply %d / table key count %d vs reply %d / table key count %d for the same log", past, pastCnt, future, futureCnt)
	}
	if past != 1 {
		t.Errorf("by log time the hash is alive at HCLEAR (5 s after a 10 s ttl was set): want reply 1, got %d", past)
	}
}
