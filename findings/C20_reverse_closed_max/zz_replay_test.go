package engine

import (
	"io/ioutil"
	"os"
	"testing"

	"github.com/youzan/ZanRedisDB/common"
)

func replayRevClosed(t *testing.T, engType string) []string {
	tmpDir, _ := ioutil.TempDir("", "replay")
	defer os.RemoveAll(tmpDir)
	cfg := NewRockConfig()
	cfg.EngineType = engType
	cfg.DataDir = tmpDir
	eng, err := NewKVEng(cfg)
	if err != nil {
		t.Fatal(err)
	}
	if err := eng.OpenEng(); err != nil {
		t.Fatal(err)
	}
	defer eng.CloseAll()
	wb := eng.DefaultWriteBatch()
	wb.Put([]byte("c"), []byte("v"))
	if err := eng.Write(wb); err != nil {
		t.Fatal(err)
	}
	wb.Clear()
	opts := IteratorOpts{Range: Range{Min: []byte("a"), Max: []byte("b"), Type: common.RangeClose}, Reverse: true}
	it, err := NewDBRangeIteratorWithOpts(eng, opts)
	if err != nil {
		t.Fatal(err)
	}
	defer it.Close()
	var got []string
	for ; it.Valid(); it.Next() {
		got = append(got, string(it.Key()))
	}
	return got
}

func TestVerifReplayRevClosed(t *testing.T) {
	for _, e := range []string{"mem", "pebble"} {
		got := replayRevClosed(t, e)
		t.Logf("engine %s: reverse scan of [a,b] over {c} returned %q", e, got)
		if len(got) != 0 {
			t.Errorf("engine %s returned keys outside [a,b]: %q", e, got)
		}
	}
}
