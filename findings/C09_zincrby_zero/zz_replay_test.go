package rockredis

import (
	"io/ioutil"
	"os"
	"testing"
	"time"

	"github.com/youzan/ZanRedisDB/common"
)

// ZINCRBY with an increment that leaves the score unchanged (0, or one too small to change a large score)
func TestVerifReplayZIncrByZero(t *testing.T) {
	dir, _ := ioutil.TempDir("", "replay")
	defer os.RemoveAll(dir)
	cfg := NewRockRedisDBConfig()
	cfg.EngineType = "mem"
	cfg.DataDir = dir
	cfg.ExpirationPolicy = common.WaitCompact
	cfg.DataVersion = common.ValueHeaderV1
	db, err := OpenRockDB(cfg)
	if err != nil {
		t.Fatal(err)
	}
	defer db.Close()
	ts := time.Now().UnixNano()
	key := []byte("test:z")
	if _, err := db.ZAdd(ts, key, common.ScorePair{Score: 1, Member: []byte("m")}); err != nil {
		t.Fatal(err)
	}
	s, err := db.ZIncrBy(ts, key, 0, []byte("m"))
	zc, _ := db.ZCard(key)
	zr, _ := db.ZRange(key, 0, -1)
	zs, _ := db.ZRangeByScore(key, common.MinScore, common.MaxScore, 0, -1)
	sc, serr := db.ZScore(key, []byte("m"))
	t.Logf("ZADD z 1 m; ZINCRBY z 0 m -> %v err=%v; ZCARD=%d |ZRANGE|=%d |ZRANGEBYSCORE|=%d ZSCORE=%v (%v)", s, err, zc, len(zr), len(zs), sc, serr)
	if int(zc) != len(zr) || len(zr) != 1 {
		t.Errorf("ZINCRBY by 0 removed the member from the score index: ZCARD=%d but ZRANGE returns %d members (ZSCORE still %v)", zc, len(zr), sc)
	}
}
