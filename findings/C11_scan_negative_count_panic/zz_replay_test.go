package node

import (
	"io/ioutil"
	"os"
	"testing"

	"github.com/youzan/ZanRedisDB/common"
	"github.com/youzan/ZanRedisDB/rockredis"
)

// SCAN <cursor> COUNT <negative> on a partition that has nothing (more) to return.
// The merge dispatcher (server/merge.go dispatchHandlersAndWait) runs scan handlers in fresh goroutines without a
// recover, so a panic here takes the whole server process down.
func TestVerifReplayScanNegativeCount(t *testing.T) {
	dir, _ := ioutil.TempDir("", "replay")
	defer os.RemoveAll(dir)
	cfg := rockredis.NewRockRedisDBConfig()
	cfg.EngineType = "mem"
	cfg.DataDir = dir
	db, err := rockredis.OpenRockDB(cfg)
	if err != nil {
		t.Fatal(err)
	}
	defer db.Close()
	nd := &KVNode{store: &KVStore{RockDB: db}, ns: "ns-0"}
	for _, name := range []string{"scan", "advscan"} {
		var args [][]byte
		if name == "scan" {
			args = [][]byte{[]byte("scan"), []byte("emptytable:"), []byte("count"), []byte("-5")}
		} else {
			args = [][]byte{[]byte("advscan"), []byte("ns:emptytable:"), []byte("kv"), []byte("count"), []byte("-5")}
		}
		cmd := common.BuildCommand(args)
		func() {
			defer func() {
				if e := recover(); e != nil {
					t.Errorf("%s with COUNT -5 on an empty table panics (in production: inside a merge goroutine without recover): %v", name, e)
				}
			}()
			var rsp interface{}
			var err error
			if name == "scan" {
				rsp, err = nd.scanCommand(cmd)
			} else {
				rsp, err = nd.advanceScanCommand(cmd)
			}
			t.Logf("%s ... COUNT -5 -> %v, %v", name, rsp, err)
		}()
	}
}
