package node

import (
	"io/ioutil"
	"os"
	"testing"

	"github.com/youzan/ZanRedisDB/common"
	"github.com/youzan/ZanRedisDB/rockredis"
)

// HIDX.FROM ns:table WHERE "=5": the where clause starts with the comparison operator, so parseSingleCond finds
// '=' at position 0 and reads condData[pos-1] = condData[-1].
// hidx.from is a merge command: server/merge.go dispatchHandlersAndWait runs the handler in a fresh goroutine without
// a recover, so the panic takes the whole server process down.
func TestVerifReplayHidxWherePanic(t *testing.T) {
	dir, _ := ioutil.TempDir("", "replay")
	defer os.RemoveAll(dir)
	cfg := rockredis.NewRockRedisDBConfig()
	cfg.EngineType = "mem"
	cfg.DataDir = dir
	db, err := rockredis.OpenRockDB(cfg)
	if err != nil {
		t.Fatal(err)
	}
	defer db.Close()
	nd := &KVNode{store: &KVStore{RockDB: db}, ns: "ns-0", rn: &raftNode{config: &RaftConfig{ID: 1}}}
	for _, where := range []string{"=5", "\"=5\"", "  =5", "f>1 and =2"} {
		cmd := common.BuildCommand([][]byte{[]byte("hidx.from"), []byte("ns:tb"), []byte("where"), []byte(where)})
		func() {
			defer func() {
				if e := recover(); e != nil {
					t.Errorf("HIDX.FROM ns:tb WHERE %q panics (in production: inside a merge goroutine without recover): %v", where, e)
				}
			}()
			rsp, err := nd.hindexSearchCommand(cmd)
			t.Logf("HIDX.FROM ns:tb WHERE %q -> %v, %v", where, rsp, err)
		}()
	}
}
