package rockredis

import (
	"io/ioutil"
	"math"
	"os"
	"testing"
	"time"

	"github.com/youzan/ZanRedisDB/common"
)

func verifReplaySetRange(t *testing.T, offset int) (n int64, err error, panicked interface{}) {
	dir, _ := ioutil.TempDir("", "replay")
	defer os.RemoveAll(dir)
	cfg := NewRockRedisDBConfig()
	cfg.EngineType = "mem"
	cfg.DataDir = dir
	cfg.ExpirationPolicy = common.WaitCompact
	cfg.DataVersion = common.ValueHeaderV1
	db, oerr := OpenRockDB(cfg)
	if oerr != nil {
		t.Fatal(oerr)
	}
	defer db.Close()
	ts := time.Now().UnixNano()
	key := []byte("test:k")
	if err := db.KVSet(ts, key, []byte("hello")); err != nil {
		t.Fatal(err)
	}
	defer func() {
		panicked = recover()
	}()
	n, err = db.SetRange(ts, key, offset, []byte("x"))
	return
}

// SETRANGE k <offset> x: the apply handler (node/keys.go localSetRangeCommand) passes any int64 the client sent.
func TestVerifReplaySetRangeBadOffset(t *testing.T) {
	for _, off := range []int{-1, -100, math.MaxInt64, math.MaxInt64 - 1} {
		n, err, p := verifReplaySetRange(t, off)
		t.Logf("SetRange(offset=%d) = %v, %v panic=%v", off, n, err, p)
		if p != nil {
			t.Errorf("SETRANGE with offset %d panics in the store (the committed entry would crash every replica on apply and on every replay): %v", off, p)
		} else if err == nil {
			t.Errorf("SETRANGE with offset %d was accepted", off)
		}
	}
}
