package rockredis

import (
	"io/ioutil"
	"os"
	"testing"
	"time"

	"github.com/youzan/ZanRedisDB/common"
)

// A member / field repeated inside one command must be counted once (C08), and the stored size must keep
// matching what can be enumerated (C09).
func TestVerifReplayDuplicateMembers(t *testing.T) {
	dir, _ := ioutil.TempDir("", "replay")
	defer os.RemoveAll(dir)
	cfg := NewRockRedisDBConfig()
	cfg.EngineType = "mem"
	cfg.DataDir = dir
	cfg.ExpirationPolicy = common.WaitCompact
	cfg.DataVersion = common.ValueHeaderV1
	db, err := OpenRockDB(cfg)
	if err != nil {
		t.Fatal(err)
	}
	defer db.Close()
	ts := time.Now().UnixNano()

	// HMSET h f 1 f 2
	hk := []byte("test:h")
	err = db.HMset(ts, hk, common.KVRecord{Key: []byte("f"), Value: []byte("1")}, common.KVRecord{Key: []byte("f"), Value: []byte("2")})
	hl, _ := db.HLen(hk)
	_, all, _ := db.HGetAll(hk)
	t.Logf("HMSET h f 1 f 2: err=%v HLEN=%d |HGETALL|=%d", err, hl, len(all))
	if int(hl) != len(all) {
		t.Errorf("HMSET with a repeated field: HLEN=%d but HGETALL has %d fields", hl, len(all))
	}
	// HDEL h f f
	n, err := db.HDel(ts, hk, []byte("f"), []byte("f"))
	hl, _ = db.HLen(hk)
	t.Logf("HDEL h f f: reply=%d err=%v HLEN=%d", n, err, hl)
	if n != 1 {
		t.Errorf("HDEL with a repeated field replied %d, want 1", n)
	}

	// SADD s a a
	sk := []byte("test:s")
	n, err = db.SAdd(ts, sk, []byte("a"), []byte("a"))
	sc, _ := db.SCard(sk)
	sm, _ := db.SMembers(sk)
	t.Logf("SADD s a a: reply=%d err=%v SCARD=%d |SMEMBERS|=%d", n, err, sc, len(sm))
	if n != 1 || int(sc) != len(sm) {
		t.Errorf("SADD with a repeated member: reply=%d SCARD=%d |SMEMBERS|=%d, want 1 1 1", n, sc, len(sm))
	}
	// SREM s a a
	n, err = db.SRem(ts, sk, []byte("a"), []byte("a"))
	sc, _ = db.SCard(sk)
	t.Logf("SREM s a a: reply=%d err=%v SCARD=%d", n, err, sc)
	if n != 1 {
		t.Errorf("SREM with a repeated member replied %d, want 1", n)
	}

	// ZADD z 1 m 2 m
	zk := []byte("test:z")
	n, err = db.ZAdd(ts, zk, common.ScorePair{Score: 1, Member: []byte("m")}, common.ScorePair{Score: 2, Member: []byte("m")})
	zc, _ := db.ZCard(zk)
	zr, _ := db.ZRange(zk, 0, -1)
	zs, _ := db.ZRangeByScore(zk, common.MinScore, common.MaxScore, 0, -1)
	t.Logf("ZADD z 1 m 2 m: reply=%d err=%v ZCARD=%d |ZRANGE|=%d |ZRANGEBYSCORE|=%d", n, err, zc, len(zr), len(zs))
	if n != 1 || int(zc) != len(zr) || len(zr) != 1 {
		t.Errorf("ZADD with a repeated member: reply=%d ZCARD=%d |ZRANGE|=%d, want 1 1 1", n, zc, len(zr))
	}
	// ZREM z m m
	n, err = db.ZRem(ts, zk, []byte("m"), []byte("m"))
	zc, _ = db.ZCard(zk)
	zr, _ = db.ZRange(zk, 0, -1)
	t.Logf("ZREM z m m: reply=%d err=%v ZCARD=%d |ZRANGE|=%d", n, err, zc, len(zr))
	if n != 1 || int(zc) != len(zr) {
		t.Errorf("ZREM with a repeated member: reply=%d ZCARD=%d |ZRANGE|=%d", n, zc, len(zr))
	}
}
