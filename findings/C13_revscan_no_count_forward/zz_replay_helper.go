package node

import (
	"github.com/youzan/ZanRedisDB/common"
	"github.com/youzan/ZanRedisDB/rockredis"
)

// VerifReplayNsMgr builds a namespace manager with one ready, leading partition backed by db and the real
// scan / revscan merge handlers registered exactly as registerHandler does (replay helper, overlay only).
func VerifReplayNsMgr(db *rockredis.RockDB, ns string) *NamespaceMgr {
	nd := &KVNode{store: &KVStore{RockDB: db}, ns: ns, router: common.NewCmdRouter(),
		rn: &raftNode{config: &RaftConfig{ID: 1}, lead: 1}, machineConfig: &MachineConfig{}}
	nd.router.RegisterMerge("scan", wrapMergeCommand(nd.scanCommand))
	nd.router.RegisterMerge("revscan", wrapMergeCommand(nd.scanCommand))
	nd.router.RegisterMerge("advscan", nd.advanceScanCommand)
	nd.router.RegisterMerge("advrevscan", nd.advanceScanCommand)
	return &NamespaceMgr{kvNodes: map[string]*NamespaceNode{ns: {Node: nd, ready: 1}}}
}
