package server

import (
	"encoding/base64"
	"io/ioutil"
	"os"
	"testing"

	"github.com/youzan/ZanRedisDB/common"
	"github.com/youzan/ZanRedisDB/node"
	"github.com/youzan/ZanRedisDB/rockredis"
)

// REVSCAN without a COUNT argument through the real server fan-out (doScanCommon): countIndex stays 0, so the
// per-partition rewrite of the COUNT argument lands on Args[0] - the command name becomes "0" and the partition
// handler, which takes the direction from the command name, scans forward.
func TestVerifReplayRevScanNoCount(t *testing.T) {
	dir, _ := ioutil.TempDir("", "replay")
	defer os.RemoveAll(dir)
	cfg := rockredis.NewRockRedisDBConfig()
	cfg.EngineType = "mem"
	cfg.DataDir = dir
	db, err := rockredis.OpenRockDB(cfg)
	if err != nil {
		t.Fatal(err)
	}
	defer db.Close()
	for _, k := range []string{"tb:a", "tb:b", "tb:c"} {
		if err := db.KVSet(0, []byte(k), []byte("v")); err != nil {
			t.Fatal(err)
		}
	}
	s := &Server{nsMgr: node.VerifReplayNsMgr(db, "ns-0"), maxScanJob: 10}
	run := func(args ...string) []string {
		var bs [][]byte
		for _, a := range args {
			bs = append(bs, []byte(a))
		}
		res, _, err := s.doScanCommon(common.BuildCommand(bs))
		if err != nil {
			t.Fatalf("%v: %v", args, err)
		}
		var keys []string
		for _, r := range res {
			sr, ok := r.(*common.ScanResult)
			if !ok {
				t.Fatalf("%v: unexpected partition result %T %v", args, r, r)
			}
			for _, k := range sr.Keys {
				keys = append(keys, string(k))
			}
		}
		return keys
	}
	// merged-scan cursor of partition 0 standing at key "d": base64("0:" + base64("d") + ";")
	inner := base64.StdEncoding.EncodeToString([]byte("d"))
	cur := "ns:tb:" + base64.StdEncoding.EncodeToString([]byte("0:"+inner+";"))
	withCount := run("revscan", cur, "count", "10")
	noCount := run("revscan", cur)
	t.Logf("REVSCAN <cursor at d> COUNT 10 -> %v", withCount)
	t.Logf("REVSCAN <cursor at d>          -> %v", noCount)
	if len(withCount) != 3 || withCount[0] != "tb:c" {
		t.Fatalf("REVSCAN with COUNT 10 from d should return c b a, got %v", withCount)
	}
	if len(noCount) != len(withCount) {
		t.Fatalf("REVSCAN without COUNT returned %v, with COUNT 10 %v", noCount, withCount)
	}
	for i := range noCount {
		if noCount[i] != withCount[i] {
			t.Fatalf("REVSCAN without COUNT is not a reverse scan: %v, with COUNT 10: %v", noCount, withCount)
		}
	}
}
