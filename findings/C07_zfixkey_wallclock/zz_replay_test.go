package rockredis

import (
	"io/ioutil"
	"os"
	"testing"
	"time"

	"github.com/youzan/ZanRedisDB/common"
)

// Same log (ZADD, ZEXPIRE 10, ZFIXKEY five log-seconds later) applied with the wall clock 1000 s after / before the
// log.  The stored size seen by the next write (judged at log time, as every write does) must not differ.
func verifReplayZFixKeyAt(t *testing.T, base int64) int64 {
	dir, _ := ioutil.TempDir("", "replay")
	defer os.RemoveAll(dir)
	cfg := NewRockRedisDBConfig()
	cfg.EngineType = "mem"
	cfg.DataDir = dir
	cfg.ExpirationPolicy = common.WaitCompact
	cfg.DataVersion = common.ValueHeaderV1
	db, err := OpenRockDB(cfg)
	if err != nil {
		t.Fatal(err)
	}
	defer db.Close()
	key := []byte("test:z")
	if _, err := db.ZAdd(base, key, common.ScorePair{Score: 1, Member: []byte("a")}, common.ScorePair{Score: 2, Member: []byte("b")}); err != nil {
		t.Fatal(err)
	}
	if _, err := db.ZExpire(base, key, 10); err != nil {
		t.Fatal(err)
	}
	if err := db.ZFixKey(base+5*int64(time.Second), key); err != nil {
		t.Fatal(err)
	}
	_, n, err := db.zGetSize(base+6*int64(time.Second), key, false)
	if err != nil {
		t.Fatal(err)
	}
	return n
}

func TestVerifReplayZFixKeyWallClock(t *testing.T) {
	now := time.Now().UnixNano()
	past := verifReplayZFixKeyAt(t, now-1000*int64(time.Second))
	future := verifReplayZFixKeyAt(t, now+1000*int64(time.Second))
	t.Logf("stored zset size after ZFIXKEY, log 1000 s behind the wall clock: %d; 1000 s ahead: %d", past, future)
	if past != future {
		t.Errorf("ZFIXKEY depends on the replica's wall clock: stored size %d vs %d for the same log", past, future)
	}
}
