package raft

import (
	"errors"
	"io/ioutil"
	"os"
	"testing"

	"github.com/youzan/ZanRedisDB/engine"
	pb "github.com/youzan/ZanRedisDB/raft/raftpb"
)

// an engine whose n-th Write fails (disk error); everything else is the real mem engine
type verifFailingEng struct {
	engine.KVEngine
	calls  int
	failAt int
}

func (f *verifFailingEng) Write(wb engine.WriteBatch) error {
	f.calls++
	if f.calls == f.failAt {
		return errors.New("injected engine write failure")
	}
	return f.KVEngine.Write(wb)
}

// RocksStorage.Append of 2500 entries commits the first 1000 in an intermediate batch. If that engine write fails,
// Append must not report success: raft would believe the entries are durable.
func TestVerifReplayRockStorageAppendSwallowsWriteError(t *testing.T) {
	dir, _ := ioutil.TempDir("", "replay")
	defer os.RemoveAll(dir)
	cfg := engine.NewRockConfig()
	cfg.EngineType = "mem"
	cfg.DataDir = dir
	eng, err := engine.NewKVEng(cfg)
	if err != nil {
		t.Fatal(err)
	}
	if err := eng.OpenEng(); err != nil {
		t.Fatal(err)
	}
	defer eng.CloseAll()
	feng := &verifFailingEng{KVEngine: eng}
	ms := NewRocksStorage(1, 1, false, feng)
	// a fresh storage holds the dummy entry 0; make the next engine write (the intermediate commit) fail
	ents := make([]pb.Entry, 0, 2500)
	for i := 1; i <= 2500; i++ {
		ents = append(ents, pb.Entry{Index: uint64(i), Term: 1})
	}
	feng.failAt = feng.calls + 1
	err = ms.Append(ents)
	t.Logf("Append(2500 entries) with the first intermediate engine write failing: err=%v (engine writes: %d)", err, feng.calls)
	if err != nil {
		return // the failure was reported: fine
	}
	got, gerr := ms.Entries(1, 11, 1<<30)
	t.Logf("Entries(1,11) after the 'successful' Append: %d entries, err=%v", len(got), gerr)
	if gerr != nil || len(got) != 10 || got[0].Index != 1 {
		t.Errorf("Append reported success although an engine write failed: entries 1..1000 are not in the log (Entries(1,11) -> %d entries, first index %v, err %v)", len(got), func() interface{} {
			if len(got) > 0 {
				return got[0].Index
			}
			return nil
		}(), gerr)
	}
}
