package rafthttp

import (
	"bytes"
	"testing"

	"github.com/youzan/ZanRedisDB/pkg/types"
)

// A corrupted stream must yield an error, never take the process down: the compact append-entries
// frame carries an entry count (and per-entry sizes) that are used as allocation lengths unchecked.
func TestVerifReplayCorruptEntryCount(t *testing.T) {
	for name, stream := range map[string][]byte{
		"count=2^64-1":      append([]byte{msgTypeAppEntries}, 0xff, 0xff, 0xff, 0xff, 0xff, 0xff, 0xff, 0xff),
		"entry size=2^64-1": append(append([]byte{msgTypeAppEntries}, 0, 0, 0, 0, 0, 0, 0, 1), 0xff, 0xff, 0xff, 0xff, 0xff, 0xff, 0xff, 0xff),
		"full msg size=2^63": append([]byte{msgTypeApp}, 0x80, 0, 0, 0, 0, 0, 0, 0),
	} {
		func() {
			defer func() {
				if r := recover(); r != nil {
					t.Errorf("%s: decoder panicked on a corrupted stream: %v", name, r)
				}
			}()
			dec := newMsgAppV2Decoder(bytes.NewReader(stream), types.ID(0), types.ID(0))
			_, err := dec.decode()
			if err == nil {
				t.Errorf("%s: corrupted stream decoded without error", name)
			}
		}()
	}
}
