package rockredis

import (
	"io/ioutil"
	"os"
	"testing"
	"time"

	"github.com/youzan/ZanRedisDB/common"
)

// SREM / HDEL / ZREM on a collection whose expiry time has passed (value-header policy): the collection is dead,
// the reply must be 0 as for an absent key.
func TestVerifReplayRemoveOnExpired(t *testing.T) {
	dir, _ := ioutil.TempDir("", "replay")
	defer os.RemoveAll(dir)
	cfg := NewRockRedisDBConfig()
	cfg.EngineType = "mem"
	cfg.DataDir = dir
	cfg.ExpirationPolicy = common.WaitCompact
	cfg.DataVersion = common.ValueHeaderV1
	db, err := OpenRockDB(cfg)
	if err != nil {
		t.Fatal(err)
	}
	defer db.Close()
	now := time.Now()
	ts0 := now.Add(-100 * time.Second).UnixNano()
	ts := now.UnixNano()

	sk := []byte("test:s")
	db.SAdd(ts0, sk, []byte("a"))
	db.SExpire(ts0, sk, 10)
	if n, _ := db.SIsMember(sk, []byte("a")); n != 0 {
		t.Fatalf("expired set still readable")
	}
	n, err := db.SRem(ts, sk, []byte("a"))
	t.Logf("SREM on expired set: reply=%d err=%v", n, err)
	if n != 0 {
		t.Errorf("SREM on an expired set replied %d (observes the dead member), want 0", n)
	}

	hk := []byte("test:h")
	db.HSet(ts0, false, hk, []byte("f"), []byte("v"))
	db.HExpire(ts0, hk, 10)
	n, err = db.HDel(ts, hk, []byte("f"))
	t.Logf("HDEL on expired hash: reply=%d err=%v", n, err)
	if n != 0 {
		t.Errorf("HDEL on an expired hash replied %d, want 0", n)
	}

	zk := []byte("test:z")
	db.ZAdd(ts0, zk, common.ScorePair{Score: 1, Member: []byte("m")})
	db.ZExpire(ts0, zk, 10)
	n, err = db.ZRem(ts, zk, []byte("m"))
	t.Logf("ZREM on expired zset: reply=%d err=%v", n, err)
	if n != 0 {
		t.Errorf("ZREM on an expired zset replied %d, want 0", n)
	}
}
