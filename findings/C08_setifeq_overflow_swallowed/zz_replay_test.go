package rockredis

import (
	"io/ioutil"
	"os"
	"testing"
	"time"

	"github.com/youzan/ZanRedisDB/common"
)

// SETIFEQ k old new EX <seconds> with a ttl whose absolute expiry does not fit the uint32 header field: the error of
// resetWithNewKVValue is dropped in SetIfEQ and a nil value is written for the key.
func TestVerifReplaySetIfEQOverflowSwallowed(t *testing.T) {
	dir, _ := ioutil.TempDir("", "replay")
	defer os.RemoveAll(dir)
	cfg := NewRockRedisDBConfig()
	cfg.EngineType = "mem"
	cfg.DataDir = dir
	cfg.ExpirationPolicy = common.WaitCompact
	cfg.DataVersion = common.ValueHeaderV1
	db, err := OpenRockDB(cfg)
	if err != nil {
		t.Fatal(err)
	}
	defer db.Close()
	ts := time.Now().UnixNano()
	key := []byte("test:k")
	if err := db.KVSet(ts, key, []byte("old")); err != nil {
		t.Fatal(err)
	}
	// node/keys.go localSetCommand -> KVSetWithOpts(ts, key, value, duration, nx, xx); getExNxXXArgs only checks duration > 0
	n, err := db.SetIfEQ(ts, key, []byte("old"), []byte("new"), 1<<33)
	v, gerr := db.KVGet(key)
	ex, _ := db.KVExists(key)
	t.Logf("SETIFEQ k old new EX %d: reply=%d err=%v; afterwards GET -> %q err=%v, EXISTS -> %d", int64(1)<<33, n, err, v, gerr, ex)
	if err == nil && string(v) != "new" {
		t.Errorf("SETIFEQ with an out-of-range ttl replied OK (n=%d) but the key now reads %q (err %v): the expiry error was swallowed and a nil value was stored over %q", n, v, gerr, "old")
	}
}
