package rockredis

import (
	"io/ioutil"
	"os"
	"testing"
	"time"

	"github.com/youzan/ZanRedisDB/common"
)

func TestVerifReplayZRemRangeOnExpired(t *testing.T) {
	dir, _ := ioutil.TempDir("", "replay")
	defer os.RemoveAll(dir)
	cfg := NewRockRedisDBConfig()
	cfg.EngineType = "mem"
	cfg.DataDir = dir
	cfg.ExpirationPolicy = common.WaitCompact
	cfg.DataVersion = common.ValueHeaderV1
	db, err := OpenRockDB(cfg)
	if err != nil {
		t.Fatal(err)
	}
	defer db.Close()
	now := time.Now()
	ts0 := now.Add(-100 * time.Second).UnixNano()
	ts := now.UnixNano()
	for i, name := range []string{"byscore", "byrank", "bylex"} {
		zk := []byte("test:z" + name)
		db.ZAdd(ts0, zk, common.ScorePair{Score: 1, Member: []byte("a")}, common.ScorePair{Score: 2, Member: []byte("b")}, common.ScorePair{Score: 3, Member: []byte("c")})
		db.ZExpire(ts0, zk, 10)
		var n int64
		switch i {
		case 0:
			n, err = db.ZRemRangeByScore(ts, zk, 1, 2)
		case 1:
			n, err = db.ZRemRangeByRank(ts, zk, 0, 1)
		case 2:
			n, err = db.ZRemRangeByLex(ts, zk, []byte("a"), []byte("b"), common.RangeClose)
		}
		t.Logf("ZREMRANGE%s on an expired zset: reply=%d err=%v", name, n, err)
		if n != 0 {
			t.Errorf("ZREMRANGE%s on an expired sorted set replied %d (dead members), want 0", name, n)
		}
	}
}
