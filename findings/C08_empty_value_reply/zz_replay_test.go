package rockredis

import (
	"io/ioutil"
	"os"
	"testing"
	"time"

	"github.com/youzan/ZanRedisDB/common"
)

// Redis: APPEND k "" and SETRANGE k 0 "" reply with the current length of the string.
func TestVerifReplayEmptyValueReply(t *testing.T) {
	dir, _ := ioutil.TempDir("", "replay")
	defer os.RemoveAll(dir)
	cfg := NewRockRedisDBConfig()
	cfg.EngineType = "mem"
	cfg.DataDir = dir
	cfg.ExpirationPolicy = common.WaitCompact
	cfg.DataVersion = common.ValueHeaderV1
	db, err := OpenRockDB(cfg)
	if err != nil {
		t.Fatal(err)
	}
	defer db.Close()
	ts := time.Now().UnixNano()
	key := []byte("test:k")
	if err := db.KVSet(ts, key, []byte("hello")); err != nil {
		t.Fatal(err)
	}
	n, err := db.Append(ts, key, []byte(""))
	t.Logf("APPEND k \"\" on \"hello\": reply=%d err=%v", n, err)
	if n != 5 {
		t.Errorf("APPEND with an empty value replied %d, Redis replies 5 (the current length)", n)
	}
	n, err = db.SetRange(ts, key, 0, []byte(""))
	t.Logf("SETRANGE k 0 \"\" on \"hello\": reply=%d err=%v", n, err)
	if n != 5 {
		t.Errorf("SETRANGE with an empty value replied %d, Redis replies 5 (the current length)", n)
	}
}
