package rockredis

import (
	"io/ioutil"
	"os"
	"testing"
	"time"

	"github.com/youzan/ZanRedisDB/common"
)

// LTRIM with both indexes far before the head: Redis clamps start to 0, sees start > stop and removes the key.
func TestVerifReplayLTrimFarNegative(t *testing.T) {
	dir, _ := ioutil.TempDir("", "replay")
	defer os.RemoveAll(dir)
	cfg := NewRockRedisDBConfig()
	cfg.EngineType = "mem"
	cfg.DataDir = dir
	cfg.ExpirationPolicy = common.WaitCompact
	cfg.DataVersion = common.ValueHeaderV1
	db, err := OpenRockDB(cfg)
	if err != nil {
		t.Fatal(err)
	}
	defer db.Close()
	ts := time.Now().UnixNano()
	key := []byte("test:k")
	if _, err := db.RPush(ts, key, []byte("a"), []byte("b"), []byte("c"), []byte("d"), []byte("e")); err != nil {
		t.Fatal(err)
	}
	err = db.LTrim(ts, key, -100, -50)
	n, _ := db.LLen(key)
	vals, _ := db.LRange(key, 0, -1)
	ex, _ := db.LKeyExists(key)
	t.Logf("LTRIM k -100 -50 on 5 elements: err=%v llen=%d lrange=%q exists=%v", err, n, vals, ex)
	if err != nil {
		t.Errorf("LTRIM with an out-of-range negative window returned an error (%v); Redis replies OK and removes the key", err)
	}
	if n != 0 || ex != 0 {
		t.Errorf("list should be gone after trimming to an empty window: llen=%d exists=%d", n, ex)
	}
}
