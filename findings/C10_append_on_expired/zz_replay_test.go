package rockredis

import (
	"io/ioutil"
	"os"
	"testing"
	"time"

	"github.com/youzan/ZanRedisDB/common"
)

// APPEND / SETRANGE on a key whose expiry time has passed (wait_compact policy) must start from empty.
func TestVerifReplayAppendOnExpired(t *testing.T) {
	dir, _ := ioutil.TempDir("", "replay")
	defer os.RemoveAll(dir)
	cfg := NewRockRedisDBConfig()
	cfg.EngineType = "mem"
	cfg.DataDir = dir
	cfg.ExpirationPolicy = common.WaitCompact
	cfg.DataVersion = common.ValueHeaderV1
	db, err := OpenRockDB(cfg)
	if err != nil {
		t.Fatal(err)
	}
	defer db.Close()
	now := time.Now()
	// the key was written 100 s ago with a ttl of 10 s: it expired 90 s ago on every clock involved
	ts0 := now.Add(-100 * time.Second).UnixNano()
	key := []byte("test:k")
	if err := db.SetEx(ts0, key, 10, []byte("DEAD")); err != nil {
		t.Fatal(err)
	}
	ts := now.UnixNano()
	if v, _ := db.KVGet(key); v != nil {
		t.Fatalf("expired key still readable: %q", v)
	}
	n, err := db.Append(ts, key, []byte("new"))
	v, _ := db.KVGet(key)
	t.Logf("APPEND on expired key: reply=%d err=%v value=%q", n, err, v)
	if err != nil || n != 3 || string(v) != "new" {
		t.Errorf("APPEND on an expired key built on the dead value: reply=%d value=%q, want 3 \"new\"", n, v)
	}

	key2 := []byte("test:k2")
	if err := db.SetEx(ts0, key2, 10, []byte("DEADBEEF")); err != nil {
		t.Fatal(err)
	}
	n, err = db.SetRange(ts, key2, 0, []byte("x"))
	v, _ = db.KVGet(key2)
	t.Logf("SETRANGE on expired key: reply=%d err=%v value=%q", n, err, v)
	if err != nil || n != 1 || string(v) != "x" {
		t.Errorf("SETRANGE on an expired key built on the dead value: reply=%d value=%q, want 1 \"x\"", n, v)
	}
}
