package engine

import (
	"io/ioutil"
	"os"
	"reflect"
	"testing"

	"github.com/youzan/ZanRedisDB/common"
)

// reverse scan of the right-closed range [a, c] over the store {a, b, c}: every engine must return c, b, a
func replayRevClosedPresent(t *testing.T, engType string) []string {
	tmpDir, _ := ioutil.TempDir("", "replay")
	defer os.RemoveAll(tmpDir)
	cfg := NewRockConfig()
	cfg.EngineType = engType
	cfg.DataDir = tmpDir
	eng, err := NewKVEng(cfg)
	if err != nil {
		t.Fatal(err)
	}
	if err := eng.OpenEng(); err != nil {
		t.Fatal(err)
	}
	defer eng.CloseAll()
	wb := eng.DefaultWriteBatch()
	for _, k := range []string{"a", "b", "c"} {
		wb.Put([]byte(k), []byte("v"))
	}
	if err := eng.Write(wb); err != nil {
		t.Fatal(err)
	}
	wb.Clear()
	opts := IteratorOpts{Range: Range{Min: []byte("a"), Max: []byte("c"), Type: common.RangeClose}, Reverse: true}
	it, err := NewDBRangeIteratorWithOpts(eng, opts)
	if err != nil {
		t.Fatal(err)
	}
	defer it.Close()
	var got []string
	for ; it.Valid(); it.Next() {
		got = append(got, string(it.Key()))
	}
	return got
}

func TestVerifReplayRevClosedPresent(t *testing.T) {
	want := []string{"c", "b", "a"}
	for _, e := range []string{"mem", "pebble"} {
		got := replayRevClosedPresent(t, e)
		t.Logf("engine %s: reverse scan of [a,c] over {a,b,c} returned %q", e, got)
		if !reflect.DeepEqual(got, want) {
			t.Errorf("engine %s: got %q, want %q", e, got, want)
		}
	}
}
