#!/usr/bin/env python3
# re-inserts /verif/build_report.md as section 8 of DESIGN.md (between the contents and section 0)
p='/verif/DESIGN.md'; s=open(p).read()
rep=open('/verif/build_report.md').read()
a=s.index('## 8. BUILD REPORT'); b=s.index('## 0. One-page summary')
s=s[:a]+rep+'\n\n'+s[b:]
open(p,'w').write(s)
