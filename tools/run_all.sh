#!/bin/bash
# runs every claimed check (quick tier by default) and prints one summary line each; exit 1 if any check alarms
cd /verif
tier="${1:-quick}"; rc=0
for id in $(python3 -c "import json;print(' '.join(c['property_id'] for c in json.load(open('MANIFEST.json'))['checks']))"); do
  out=$(./check $id --tier $tier 2>&1); r=$?
  echo "$id exit=$r $(echo "$out" | tail -1)"
  if [ $r -ne 0 ]; then rc=1; echo "$out" | grep '^VIOLATION' | head -5; fi
done
exit $rc
