#!/bin/bash
# usage: run_seeds.sh [prop-id ...]   applies each seeded patch to /repo, runs the property's quick check, reverts.
cd /verif
if [ -n "$(git -C /repo status --porcelain --untracked-files=no)" ]; then echo "/repo has uncommitted tracked changes; commit first"; exit 2; fi
props="$@"
for d in seeded/*/; do
  name=$(basename $d); id=${name%%_*}
  if [ -n "$props" ] && ! echo " $props " | grep -q " $id "; then continue; fi
  grep -q "\"property_id\": \"$id\"" MANIFEST.json || { echo "SEED $name: property $id not claimed"; continue; }
  git -C /repo apply /verif/$d/patch.diff || { echo "SEED $name: patch does not apply"; continue; }
  out=$(VERIF_NO_EVIDENCE=1 ./check $id --tier quick 2>&1); rc=$?
  git -C /repo checkout -- .
  obl=$(echo "$out" | grep '^VIOLATION' | sed 's/.*obligation=\([^ ]*\).*/\1/' | head -3 | paste -sd,)
  if [ $rc -ne 0 ]; then echo "SEED $name: DETECTED rc=$rc $obl"; else echo "SEED $name: missed"; fi
done
