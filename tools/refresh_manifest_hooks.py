#!/usr/bin/env python3
# lists every /repo commit after the pinned one that is not a fix: commit (i.e. the guarded verif hook commits)
import json,subprocess
hs=subprocess.check_output("cd /repo && git log --format='%H %s' 1d61b08..HEAD",shell=True,text=True).strip().split('\n')
hooks=[h.split()[0] for h in hs if not h.split(' ',1)[1].startswith('fix:')]
hooks.reverse()
bad=[]
for h in hooks:
    fs=subprocess.check_output(f"cd /repo && git show --name-only --format= {h}",shell=True,text=True).split()
    if any('zz_verif' not in f for f in fs): bad.append((h,fs))
assert not bad, bad
m=json.load(open('/verif/MANIFEST.json'))
m['hooks']['source_commits']=hooks
json.dump(m,open('/verif/MANIFEST.json','w'),indent=1)
print(len(hooks),'hook commits')
