#!/bin/bash
# Runs /repo's own rockredis tests on the pure-Go "mem" engine (the cgo rocksdb binding cannot be linked here).
# Used to validate `fix:` commits beyond the pinned suite. Scratch files under /tmp/rp only.
export GOFLAGS=-mod=mod GOPROXY=off GOSUMDB=off GOTOOLCHAIN=local
mkdir -p /tmp/rp
sed 's/testEngineType = "rocksdb"/testEngineType = "mem"/' /repo/rockredis/rockredis_test.go > /tmp/rp/rockredis_test.go
sed 's/\ttestDB, err := OpenRockDB(cfg)/\tcfg.EngineType = "mem"\n\ttestDB, err := OpenRockDB(cfg)/' /repo/rockredis/t_ttl_test.go > /tmp/rp/t_ttl_test.go
echo '{"Replace":{"/repo/rockredis/rockredis_test.go":"/tmp/rp/rockredis_test.go","/repo/rockredis/t_ttl_test.go":"/tmp/rp/t_ttl_test.go"}}' > /tmp/rp/ovmem.json
cd /repo && go test -modfile=/verif/build/repo.mod -overlay /tmp/rp/ovmem.json -vet=off -count=1 -timeout 900s \
  -skip 'TestRockDBRecovery|TestLocalDeletionTTLChecker|TestCompactionFilterInWaitCompact' "$@" -v ./rockredis 2>&1 | grep -E "^(--- FAIL|ok|FAIL|panic)"
