#!/bin/bash
# usage: confirm_seed.sh <seed_out_dir> (contains patch.diff, zz_seed_demo_test.go, meta.json)
# Confirms in a scratch worktree: with patch: builds, pinned suite passes, demo FAILS; without: demo PASSES.
export GOFLAGS=-mod=mod GOPROXY=off GOSUMDB=off GOTOOLCHAIN=local
d="$1"; wt="/tmp/wt_confirm_$$"
pkg=$(python3 -c "import json;print(json.load(open('$d/meta.json'))['package_dir'])")
git -C /repo worktree add -q --detach "$wt" 1d61b08 || exit 2
trap 'git -C /repo worktree remove --force "$wt" >/dev/null 2>&1' EXIT
cd "$wt"
ov=""
if [ -d "$d/overlay" ]; then ov="-overlay $(ls $d/overlay/*.json | head -1)"; fi
UG=/root/go/pkg/mod/github.com/ugorji/go@v0.0.0-20170107133203-ded73eae5db7/codec/gen.go
if [ "$pkg" = "server" ] || [[ "$pkg" == cluster* ]] || [ "$pkg" = "pdserver" ]; then
  mkdir -p /tmp/ugfix_$$ && sed 's/base64.NewEncoding("ABCDEFGHIJKLMNOPQRSTUVWXYZabcdefghijklmnopqrstuvwxyz0123456789__")/base64.NewEncoding("ABCDEFGHIJKLMNOPQRSTUVWXYZabcdefghijklmnopqrstuvwxyz0123456789_-")/' $UG > /tmp/ugfix_$$/gen.go
  echo "{\"Replace\":{\"$UG\":\"/tmp/ugfix_$$/gen.go\"}}" > /tmp/ugfix_$$/ov.json; ov="-overlay /tmp/ugfix_$$/ov.json"
fi
cp "$d/zz_seed_demo_test.go" "$pkg/"
runre=$(grep -o "func Test[A-Za-z0-9_]*" "$d/zz_seed_demo_test.go" | sed 's/func //' | paste -sd'|')
demo() { go test -modfile=/tmp/buildkit/repo.mod $ov -vet=off -count=1 -timeout 300s -run "^($runre)\$" ./$pkg >/tmp/confirm_$$.log 2>&1; }
demo; base=$?
git apply "$d/patch.diff" || { echo "RESULT $d patch-does-not-apply"; exit 1; }
go build -modfile=/tmp/buildkit/repo.mod ./... >/tmp/confirm_b_$$.log 2>&1; b=$?
demo; mut=$?
mv "$pkg/zz_seed_demo_test.go" /tmp/demo_$$.go
go test -mod=mod -vet=off -count=1 ./common/... ./pkg/... ./metric/... ./settings/... ./slow/... ./internal/... >/tmp/confirm_s_$$.log 2>&1; s=$?
rm -f /tmp/demo_$$.go; rm -rf /tmp/ugfix_$$
echo "RESULT $d base_demo_exit=$base build_exit=$b mutated_demo_exit=$mut pinned_suite_exit=$s"
if [ $base -eq 0 ] && [ $b -eq 0 ] && [ $mut -ne 0 ] && [ $s -eq 0 ]; then echo "CONFIRMED $d"; else echo "NOT-CONFIRMED $d"; tail -5 /tmp/confirm_$$.log; fi
rm -f /tmp/confirm_$$.log /tmp/confirm_b_$$.log /tmp/confirm_s_$$.log
