#!/usr/bin/env python3
"""Rewrites the numbers table of /verif/build_report.md (between the NUMBERS markers) from /verif/evidence/*.json."""
import json, glob, os
rows = []
for f in sorted(glob.glob('/verif/evidence/C*.json')):
    d = json.load(open(f)); c = d['coverage']
    kf = len(c.get('known_findings', []))
    rows.append((d['property_id'], len(c['functions_under_contract']), c['obligations'], c['discharged'], kf, int(round(d.get('wall_s', 0))), len(c.get('trusted_base', []))))
out = ['| id | functions | obligations | discharged | known findings | trusted / assumed items | quick s |', '|----|-----------|-------------|------------|----------------|-------------------------|---------|']
for r in rows:
    out.append('| %s | %d | %d | %d | %d | %d | %d |' % (r[0], r[1], r[2], r[3], r[4], r[6], r[5]))
out.append('| all | %d | %d | %d | %d | | %d |' % (sum(r[1] for r in rows), sum(r[2] for r in rows), sum(r[3] for r in rows), sum(r[4] for r in rows), sum(r[5] for r in rows)))
s = open('/verif/build_report.md').read()
a, b = s.index('<!-- NUMBERS-BEGIN -->'), s.index('<!-- NUMBERS-END -->')
s = s[:a] + '<!-- NUMBERS-BEGIN -->\n' + '\n'.join(out) + '\n' + s[b:]
open('/verif/build_report.md', 'w').write(s)
print('\n'.join(out))
