#!/usr/bin/env python3
"""Rewrites the seeds table of /verif/build_report.md (between the SEEDS-TABLE markers) from /verif/seeded/RESULTS.txt."""
import re, json, os, collections
res = {}
for l in open('/verif/seeded/RESULTS.txt'):
    m = re.match(r'SEED (C\d\d_\d): (DETECTED|missed|patch does not apply|ERROR)\s*(.*)', l.strip())
    if m: res[m.group(1)] = (m.group(2), m.group(3))
props = sorted({k[:3] for k in res})
def row(prop, ks):
    det = [k for k in ks if res.get(k, ('',))[0] == 'DETECTED']
    obl = '; '.join('`' + res[k][1].split(',')[0].replace('(*', '').replace(')', '') + '`' for k in det)
    miss = []
    for k in ks:
        if k in res and res[k][0] != 'DETECTED':
            why = ''
            mp = '/verif/seeded/%s/meta.json' % k
            if os.path.exists(mp):
                w = json.load(open(mp)).get('what_breaks', '')
                why = w.split('.')[0][:140]
            miss.append('%s (%s): %s' % (k, res[k][0], why))
    return '| %s | %d/%d | %s | %s |' % (prop, len(det), len([k for k in ks if k in res]), obl, '<br>'.join(miss))
out = []
for rnd, ks_of in (('round 1 (k = 1..3)', lambda p: [p + '_%d' % i for i in (1, 2, 3)]), ('round 2 (k = 4, 5)', lambda p: [p + '_%d' % i for i in (4, 5)]), ('round 3 (k = 6, 7)', lambda p: [p + '_%d' % i for i in (6, 7)])):
    out.append('**%s**\n' % rnd)
    out.append('| prop | detected | by obligation (first per seed) | not detected |')
    out.append('|------|----------|-------------------------------|--------------|')
    tot = dt = 0
    for p in props:
        ks = ks_of(p)
        if not any(k in res for k in ks): continue
        out.append(row(p, ks))
        tot += len([k for k in ks if k in res]); dt += len([k for k in ks if res.get(k, ('',))[0] == 'DETECTED'])
    out.append('\nDetected %d of %d.\n' % (dt, tot))
s = open('/verif/build_report.md').read()
a, b = s.index('<!-- SEEDS-TABLE-BEGIN -->'), s.index('<!-- SEEDS-TABLE-END -->')
s = s[:a] + '<!-- SEEDS-TABLE-BEGIN -->\n' + '\n'.join(out) + '\n' + s[b:]
open('/verif/build_report.md', 'w').write(s)
print('\n'.join(out)[-300:])
