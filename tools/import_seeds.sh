#!/bin/bash
# imports confirmed seeds from /tmp/seed_out into /verif/seeded/<prop>_<k>/
log=/tmp/seed_out/confirm.log
grep '^CONFIRMED' $log | awk '{print $2}' | while read d; do
  id=$(basename $(dirname $d)); k=$(basename $d); dst=/verif/seeded/${id}_$k
  [ -d "$dst" ] && continue
  mkdir -p $dst; cp $d/patch.diff $d/zz_seed_demo_test.go $dst/
  res=$(grep "^RESULT $d " $log | cut -d' ' -f3-)
  python3 - "$d/meta.json" "$dst/meta.json" "$res" <<'PY'
import json,sys
m=json.load(open(sys.argv[1])); m['confirmed_by_me']="tools/confirm_seed.sh in a scratch worktree of 1d61b08: "+sys.argv[3]+" (demo passes on the original tree, fails with the patch; build and the 107-test pinned suite pass with the patch)"
json.dump(m,open(sys.argv[2],'w'),indent=1)
PY
  echo imported $dst
done
